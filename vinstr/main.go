// vinstr rewrites the concurrency-relevant sources of anthdm/hollywood so that they run
// under the vsched controlled scheduler, and emits a `go build -overlay` file. /repo is
// never written. It fails loudly (exit 2) on constructs it does not know.
package main

import (
	"bytes"
	"encoding/json"
	"flag"
	"fmt"
	"go/ast"
	"go/format"
	"go/importer"
	"go/parser"
	"go/token"
	"go/types"
	"io"
	"os"
	"os/exec"
	"path/filepath"
	"sort"
	"strconv"
	"strings"

	"golang.org/x/tools/go/ast/astutil"
)

const modPath = "github.com/anthdm/hollywood"
const shimBase = modPath + "/zzverif/"

var importMap = map[string]string{
	"sync":        "vsync",
	"sync/atomic": "vatomic",
	"time":        "vtime",
	"context":     "vcontext",
	"runtime":     "vruntime",
	"math/rand":   "vrand",
	"log":         "vlog",
}

// extra per-package import redirections (transport and discovery seams)
var pkgImportMap = map[string]map[string]string{
	"remote": {
		"net":                       "vnet",
		"crypto/tls":                "vtls",
		"storj.io/drpc/drpcconn":    "vdrpcconn",
		"storj.io/drpc/drpcserver":  "vdrpcserver",
	},
	"cluster": {
		"github.com/grandcat/zeroconf": "vzeroconf",
	},
}

var defaultName = map[string]string{
	"sync": "sync", "sync/atomic": "atomic", "time": "time", "context": "context", "runtime": "runtime",
	"math/rand": "rand", "log": "log", "net": "net", "crypto/tls": "tls",
	"storj.io/drpc/drpcconn": "drpcconn", "storj.io/drpc/drpcserver": "drpcserver",
	"github.com/grandcat/zeroconf": "zeroconf",
}

type listPkg struct {
	ImportPath string
	Export     string
	Dir        string
	GoFiles    []string
	Standard   bool
}

func fatal(f string, a ...any) {
	fmt.Fprintf(os.Stderr, "vinstr: "+f+"\n", a...)
	os.Exit(2)
}

var routerInbox = flag.Int("routerinbox", 1024, "initial inbox size of the remote stream router (0 = keep the repository's value)")

type setFlag map[string]string

func (s setFlag) String() string { return "" }
func (s setFlag) Set(v string) error {
	kv := strings.SplitN(v, "=", 2)
	if len(kv) != 2 {
		return fmt.Errorf("want pkg.name=value")
	}
	s[kv[0]] = kv[1]
	return nil
}

func main() {
	repo := flag.String("repo", "/repo", "repository root")
	verif := flag.String("verif", "/verif", "verif root")
	out := flag.String("out", "", "output directory")
	netshim := flag.Bool("netshim", true, "redirect transport imports of package remote (C17)")
	pkgsFlag := flag.String("pkgs", "ringbuffer,safemap,actor,remote,cluster", "packages to rewrite")
	sets := setFlag{}
	flag.Var(sets, "set", "override a constant: pkg.name=value")
	flag.Parse()
	if *out == "" {
		fatal("-out required")
	}
	if abs, err := filepath.Abs(*out); err == nil {
		*out = abs
	}
	pkgs := strings.Split(*pkgsFlag, ",")
	os.MkdirAll(filepath.Join(*out, "src"), 0o755)

	// 1. export data for type checking
	args := []string{"list", "-export", "-deps", "-json=ImportPath,Export,Dir,GoFiles,Standard"}
	for _, p := range pkgs {
		args = append(args, "./"+p)
	}
	cmd := exec.Command("go", args...)
	cmd.Dir = *repo
	cmd.Stderr = os.Stderr
	outb, err := cmd.Output()
	if err != nil {
		fatal("go list failed: %v", err)
	}
	exports := map[string]string{}
	info := map[string]*listPkg{}
	dec := json.NewDecoder(bytes.NewReader(outb))
	for {
		var lp listPkg
		if err := dec.Decode(&lp); err == io.EOF {
			break
		} else if err != nil {
			fatal("decode go list: %v", err)
		}
		exports[lp.ImportPath] = lp.Export
		l := lp
		info[lp.ImportPath] = &l
	}
	fset := token.NewFileSet()
	imp := importer.ForCompiler(fset, "gc", func(path string) (io.ReadCloser, error) {
		e := exports[path]
		if e == "" {
			return nil, fmt.Errorf("no export data for %s", path)
		}
		return os.Open(e)
	})

	overlay := map[string]string{}
	var report []string

	for _, p := range pkgs {
		lp := info[modPath+"/"+p]
		if lp == nil {
			fatal("package %s not listed", p)
		}
		var files []*ast.File
		var names []string
		for _, gf := range lp.GoFiles {
			f, err := parser.ParseFile(fset, filepath.Join(lp.Dir, gf), nil, parser.ParseComments)
			if err != nil {
				fatal("parse %s: %v", gf, err)
			}
			files = append(files, f)
			names = append(names, gf)
		}
		tinfo := &types.Info{Types: map[ast.Expr]types.TypeAndValue{}, Uses: map[*ast.Ident]types.Object{}, Defs: map[*ast.Ident]types.Object{}}
		conf := types.Config{Importer: imp, Error: func(err error) { fmt.Fprintln(os.Stderr, "vinstr: typecheck:", err) }}
		if _, err := conf.Check(lp.ImportPath, fset, files, tinfo); err != nil {
			fatal("type check of %s failed: %v", p, err)
		}
		for i, f := range files {
			if strings.HasSuffix(names[i], ".pb.go") {
				continue
			}
			rw := &rewriter{fset: fset, info: tinfo, pkg: p, file: names[i], sets: sets, netshim: *netshim}
			changed := rw.rewrite(f)
			if !changed {
				continue
			}
			var buf bytes.Buffer
			if err := format.Node(&buf, fset, f); err != nil {
				fatal("print %s/%s: %v", p, names[i], err)
			}
			dst := filepath.Join(*out, "src", p, names[i])
			os.MkdirAll(filepath.Dir(dst), 0o755)
			if err := os.WriteFile(dst, buf.Bytes(), 0o644); err != nil {
				fatal("%v", err)
			}
			overlay[filepath.Join(lp.Dir, names[i])] = dst
			report = append(report, rw.report...)
		}
		// in-package harness export file
		exp := filepath.Join(*verif, "harness", "inpkg", p+"_export.go")
		if _, err := os.Stat(exp); err == nil {
			overlay[filepath.Join(lp.Dir, "zz_verif_export.go")] = exp
		}
	}
	for k := range sets {
		if sets[k] != "\x00done" {
			fatal("constant %s not found", k)
		}
	}
	// virtual shim packages
	shimRoot := filepath.Join(*verif, "zzverif")
	ents, _ := os.ReadDir(shimRoot)
	for _, e := range ents {
		if !e.IsDir() {
			continue
		}
		fs, _ := os.ReadDir(filepath.Join(shimRoot, e.Name()))
		for _, f := range fs {
			if strings.HasSuffix(f.Name(), ".go") {
				overlay[filepath.Join(*repo, "zzverif", e.Name(), f.Name())] = filepath.Join(shimRoot, e.Name(), f.Name())
			}
		}
	}
	ov, _ := json.MarshalIndent(map[string]any{"Replace": overlay}, "", " ")
	if err := os.WriteFile(filepath.Join(*out, "overlay.json"), ov, 0o644); err != nil {
		fatal("%v", err)
	}
	sort.Strings(report)
	os.WriteFile(filepath.Join(*out, "rewrites.txt"), []byte(strings.Join(report, "\n")+"\n"), 0o644)
}

type rewriter struct {
	fset    *token.FileSet
	info    *types.Info
	pkg     string
	file    string
	sets    setFlag
	netshim bool
	report  []string
	needVS  bool
	tmp     int
}

func (r *rewriter) pos(n ast.Node) string {
	p := r.fset.Position(n.Pos())
	return fmt.Sprintf("%s/%s:%d", r.pkg, r.file, p.Line)
}

func (r *rewriter) note(n ast.Node, what string) {
	r.report = append(r.report, r.pos(n)+" "+what)
}

func (r *rewriter) unsupported(n ast.Node, what string) {
	fatal("UNSUPPORTED-CONSTRUCT %s: %s", r.pos(n), what)
}

func vs(name string) ast.Expr {
	return &ast.SelectorExpr{X: ast.NewIdent("vsched"), Sel: ast.NewIdent(name)}
}

func call(fun ast.Expr, args ...ast.Expr) *ast.CallExpr {
	return &ast.CallExpr{Fun: fun, Args: args}
}

func (r *rewriter) fresh(prefix string) *ast.Ident {
	r.tmp++
	return ast.NewIdent(fmt.Sprintf("vs%s%d", prefix, r.tmp))
}

func define(lhs ast.Expr, rhs ast.Expr) ast.Stmt {
	return &ast.AssignStmt{Lhs: []ast.Expr{lhs}, Tok: token.DEFINE, Rhs: []ast.Expr{rhs}}
}

func (r *rewriter) rewrite(f *ast.File) bool {
	changed := false
	// imports
	for _, is := range f.Imports {
		path, _ := strconv.Unquote(is.Path.Value)
		shim, ok := importMap[path]
		if !ok {
			if m := pkgImportMap[r.pkg]; m != nil {
				if s, ok2 := m[path]; ok2 && (r.pkg != "remote" || r.netshim) {
					shim, ok = s, true
				}
			}
		}
		if !ok {
			continue
		}
		if is.Name == nil {
			is.Name = ast.NewIdent(defaultName[path])
		}
		is.Path.Value = strconv.Quote(shimBase + shim)
		is.EndPos = 0
		r.note(is, "import "+path+" -> "+shim)
		changed = true
	}
	// constant overrides
	for _, d := range f.Decls {
		gd, ok := d.(*ast.GenDecl)
		if !ok || gd.Tok != token.CONST {
			continue
		}
		for _, sp := range gd.Specs {
			vsp := sp.(*ast.ValueSpec)
			for i, n := range vsp.Names {
				key := r.pkg + "." + n.Name
				if v, ok := r.sets[key]; ok && v != "\x00done" && i < len(vsp.Values) {
					vsp.Values[i] = &ast.BasicLit{Kind: token.INT, Value: v}
					r.sets[key] = "\x00done"
					r.note(n, "const override "+key+"="+v)
					changed = true
				}
			}
		}
	}

	pre := func(c *astutil.Cursor) bool { return true }
	post := func(c *astutil.Cursor) bool {
		switch n := c.Node().(type) {
		case *ast.SelectStmt:
			// children are already rewritten: comm clauses now hold vsched.Recv/Recv2/Send calls
			if _, ok := c.Parent().(*ast.LabeledStmt); ok {
				r.unsupported(n, "labeled select")
			}
			c.Replace(r.rewriteSelect(n))
			r.needVS = true
		case *ast.GoStmt:
			c.Replace(r.rewriteGo(n))
			r.needVS = true
		case *ast.SendStmt:
			r.note(n, "send")
			c.Replace(&ast.ExprStmt{X: call(vs("Send"), n.Chan, n.Value)})
			r.needVS = true
		case *ast.UnaryExpr:
			if n.Op != token.ARROW {
				break
			}
			fn := "Recv"
			switch p := c.Parent().(type) {
			case *ast.AssignStmt:
				if len(p.Lhs) == 2 && len(p.Rhs) == 1 {
					fn = "Recv2"
				}
			case *ast.ValueSpec:
				if len(p.Names) == 2 && len(p.Values) == 1 {
					fn = "Recv2"
				}
			}
			r.note(n, "recv")
			c.Replace(call(vs(fn), n.X))
			r.needVS = true
		case *ast.CallExpr:
			// declared parameter change: the stream router's initial inbox size (1Mi entries, 24 MB
			// zeroed per engine) is scaled down; the ring buffer grows on demand, so only the
			// allocation cost of every explored execution changes.
			if se, ok := n.Fun.(*ast.SelectorExpr); ok && r.pkg == "remote" && se.Sel.Name == "WithInboxSize" && len(n.Args) == 1 && *routerInbox > 0 {
				if x, ok := se.X.(*ast.Ident); ok && x.Name == "actor" {
					if _, isLit := n.Args[0].(*ast.BasicLit); !isLit {
						n.Args[0] = &ast.BasicLit{Kind: token.INT, Value: strconv.Itoa(*routerInbox)}
						r.note(n, "router inbox size scaled to "+strconv.Itoa(*routerInbox))
					}
				}
			}
			if id, ok := n.Fun.(*ast.Ident); ok && id.Name == "close" && len(n.Args) == 1 {
				if _, isBuiltin := r.info.Uses[id].(*types.Builtin); isBuiltin {
					r.note(n, "close")
					c.Replace(call(vs("Close"), n.Args[0]))
					r.needVS = true
				}
			}
		case *ast.RangeStmt:
			tv, ok := r.info.Types[n.X]
			if !ok {
				// expression produced by an earlier rewrite: cannot be a bare map/chan variable
				break
			}
			switch tv.Type.Underlying().(type) {
			case *types.Map:
				c.Replace(r.rewriteMapRange(n, c))
				r.needVS = true
			case *types.Chan:
				c.Replace(r.rewriteChanRange(n, c))
				r.needVS = true
			}
		}
		return true
	}
	astutil.Apply(f, pre, post)
	if r.needVS {
		astutil.AddNamedImport(r.fset, f, "vsched", shimBase+"vsched")
		changed = true
	}
	return changed
}

func (r *rewriter) rewriteGo(n *ast.GoStmt) ast.Stmt {
	r.note(n, "go")
	label := &ast.BasicLit{Kind: token.STRING, Value: strconv.Quote(r.pos(n))}
	var stmts []ast.Stmt
	callee := n.Call.Fun
	if _, isLit := callee.(*ast.FuncLit); !isLit {
		id := r.fresh("f")
		stmts = append(stmts, define(id, callee))
		callee = id
	}
	var args []ast.Expr
	for _, a := range n.Call.Args {
		id := r.fresh("a")
		stmts = append(stmts, define(id, a))
		args = append(args, id)
	}
	inner := &ast.CallExpr{Fun: callee, Args: args, Ellipsis: n.Call.Ellipsis}
	if n.Call.Ellipsis.IsValid() {
		inner.Ellipsis = 1
	}
	fl := &ast.FuncLit{Type: &ast.FuncType{Params: &ast.FieldList{}}, Body: &ast.BlockStmt{List: []ast.Stmt{&ast.ExprStmt{X: inner}}}}
	stmts = append(stmts, &ast.ExprStmt{X: call(vs("Go"), label, fl)})
	return &ast.BlockStmt{List: stmts}
}

func (r *rewriter) rewriteSelect(n *ast.SelectStmt) ast.Stmt {
	r.note(n, "select")
	var pre []ast.Stmt
	var cases []ast.Expr
	hasDefault := false
	sw := &ast.SwitchStmt{Body: &ast.BlockStmt{}}
	idx := 0
	for _, cl := range n.Body.List {
		cc := cl.(*ast.CommClause)
		if cc.Comm == nil {
			hasDefault = true
			sw.Body.List = append(sw.Body.List, &ast.CaseClause{List: nil, Body: cc.Body})
			continue
		}
		chID := r.fresh("c")
		var body []ast.Stmt
		switch s := cc.Comm.(type) {
		case *ast.ExprStmt:
			ce, name := vsCall(s.X)
			switch name {
			case "Send":
				pre = append(pre, define(chID, ce.Args[0]))
				cases = append(cases, call(vs("SendCase"), chID))
				body = append(body, &ast.ExprStmt{X: call(vs("SendNow"), chID, ce.Args[1])})
			case "Recv":
				pre = append(pre, define(chID, ce.Args[0]))
				cases = append(cases, call(vs("RecvCase"), chID))
				body = append(body, &ast.ExprStmt{X: call(vs("RecvNow"), chID)})
			default:
				r.unsupported(s, "select comm clause")
			}
		case *ast.AssignStmt:
			if len(s.Rhs) != 1 {
				r.unsupported(s, "select comm clause")
			}
			ce, name := vsCall(s.Rhs[0])
			if name != "Recv" && name != "Recv2" {
				r.unsupported(s, "select comm clause")
			}
			pre = append(pre, define(chID, ce.Args[0]))
			cases = append(cases, call(vs("RecvCase"), chID))
			fn := "RecvNow"
			if len(s.Lhs) == 2 {
				fn = "RecvNow2"
			}
			body = append(body, &ast.AssignStmt{Lhs: s.Lhs, Tok: s.Tok, Rhs: []ast.Expr{call(vs(fn), chID)}})
			// keep "declared and not used" away for `case v := <-ch:` with unused v
			if s.Tok == token.DEFINE {
				for _, l := range s.Lhs {
					if id, ok := l.(*ast.Ident); ok && id.Name != "_" {
						body = append(body, &ast.AssignStmt{Lhs: []ast.Expr{ast.NewIdent("_")}, Tok: token.ASSIGN, Rhs: []ast.Expr{ast.NewIdent(id.Name)}})
					}
				}
			}
		default:
			r.unsupported(cc, "select comm clause")
		}
		body = append(body, cc.Body...)
		sw.Body.List = append(sw.Body.List, &ast.CaseClause{List: []ast.Expr{&ast.BasicLit{Kind: token.INT, Value: strconv.Itoa(idx)}}, Body: body})
		idx++
	}
	def := "false"
	if hasDefault {
		def = "true"
	} else {
		sw.Body.List = append(sw.Body.List, &ast.CaseClause{List: nil, Body: []ast.Stmt{&ast.ExprStmt{X: call(ast.NewIdent("panic"), &ast.BasicLit{Kind: token.STRING, Value: `"vsched: bad select index"`})}}})
	}
	sw.Tag = call(vs("Select"), append([]ast.Expr{ast.NewIdent(def)}, cases...)...)
	return &ast.BlockStmt{List: append(pre, sw)}
}

// vsCall recognises a call vsched.<name>(...) produced by an earlier rewrite.
func vsCall(e ast.Expr) (*ast.CallExpr, string) {
	ce, ok := e.(*ast.CallExpr)
	if !ok {
		return nil, ""
	}
	se, ok := ce.Fun.(*ast.SelectorExpr)
	if !ok {
		return nil, ""
	}
	if id, ok := se.X.(*ast.Ident); !ok || id.Name != "vsched" {
		return nil, ""
	}
	return ce, se.Sel.Name
}

func simpleExpr(e ast.Expr) bool {
	switch x := e.(type) {
	case *ast.Ident:
		return true
	case *ast.SelectorExpr:
		return simpleExpr(x.X)
	}
	return false
}

func (r *rewriter) rewriteMapRange(n *ast.RangeStmt, c *astutil.Cursor) ast.Stmt {
	r.note(n, "map range")
	if n.Tok != token.DEFINE && n.Key != nil {
		r.unsupported(n, "map range with '='")
	}
	var pre []ast.Stmt
	m := n.X
	if !simpleExpr(m) {
		id := r.fresh("m")
		pre = append(pre, define(id, m))
		m = id
	}
	var key *ast.Ident
	if k, ok := n.Key.(*ast.Ident); ok && k.Name != "_" {
		key = k
	} else {
		key = r.fresh("k")
	}
	var head []ast.Stmt
	okID := r.fresh("ok")
	var valLHS ast.Expr = ast.NewIdent("_")
	if v, ok := n.Value.(*ast.Ident); ok && v.Name != "_" {
		valLHS = v
	}
	tok := token.DEFINE
	head = append(head, &ast.AssignStmt{Lhs: []ast.Expr{valLHS, okID}, Tok: tok, Rhs: []ast.Expr{&ast.IndexExpr{X: m, Index: key}}})
	head = append(head, &ast.IfStmt{Cond: &ast.UnaryExpr{Op: token.NOT, X: okID}, Body: &ast.BlockStmt{List: []ast.Stmt{&ast.BranchStmt{Tok: token.CONTINUE}}}})
	if v, ok := valLHS.(*ast.Ident); ok && v.Name != "_" {
		head = append(head, &ast.AssignStmt{Lhs: []ast.Expr{ast.NewIdent("_")}, Tok: token.ASSIGN, Rhs: []ast.Expr{ast.NewIdent(v.Name)}})
	}
	head = append(head, &ast.AssignStmt{Lhs: []ast.Expr{ast.NewIdent("_")}, Tok: token.ASSIGN, Rhs: []ast.Expr{ast.NewIdent(key.Name)}})
	body := &ast.BlockStmt{List: append(head, n.Body.List...)}
	rs := &ast.RangeStmt{Key: ast.NewIdent("_"), Value: key, Tok: token.DEFINE, X: call(vs("MapKeys"), m), Body: body}
	if len(pre) == 0 {
		return rs
	}
	if _, ok := c.Parent().(*ast.LabeledStmt); ok {
		r.unsupported(n, "labeled range over a non-simple map expression")
	}
	return &ast.BlockStmt{List: append(pre, rs)}
}

func (r *rewriter) rewriteChanRange(n *ast.RangeStmt, c *astutil.Cursor) ast.Stmt {
	r.note(n, "chan range")
	okID := r.fresh("ok")
	var lhs ast.Expr = ast.NewIdent("_")
	if k, ok := n.Key.(*ast.Ident); ok && k.Name != "_" {
		lhs = k
	}
	head := []ast.Stmt{
		&ast.AssignStmt{Lhs: []ast.Expr{lhs, okID}, Tok: token.DEFINE, Rhs: []ast.Expr{call(vs("Recv2"), n.X)}},
		&ast.IfStmt{Cond: &ast.UnaryExpr{Op: token.NOT, X: okID}, Body: &ast.BlockStmt{List: []ast.Stmt{&ast.BranchStmt{Tok: token.BREAK}}}},
	}
	if id, ok := lhs.(*ast.Ident); ok && id.Name != "_" {
		head = append(head, &ast.AssignStmt{Lhs: []ast.Expr{ast.NewIdent("_")}, Tok: token.ASSIGN, Rhs: []ast.Expr{ast.NewIdent(id.Name)}})
	}
	return &ast.ForStmt{Body: &ast.BlockStmt{List: append(head, n.Body.List...)}}
}
