module vinstr

go 1.22.0

toolchain go1.23.5

require golang.org/x/tools v0.29.0
