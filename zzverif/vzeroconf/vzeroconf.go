// Package vzeroconf stands in for github.com/grandcat/zeroconf in package cluster: an
// inert resolver/announcer. Discovery results become explicit harness events (Inject).
package vzeroconf

import (
	"context"
	"net"
)

type ServiceEntry struct {
	Instance string
	AddrIPv4 []net.IP
	Port     int
}

type Resolver struct{}

type Server struct{ Down bool }

// Browsers collects the entry channels handed to Browse (per process; harness resets).
var Browsers []chan<- *ServiceEntry

func NewResolver(opts ...any) (*Resolver, error) { return &Resolver{}, nil }

func (r *Resolver) Browse(ctx context.Context, service, domain string, entries chan<- *ServiceEntry) error {
	Browsers = append(Browsers, entries)
	return nil
}

func RegisterProxy(instance, service, domain string, port int, host string, ips []string, text []string, ifaces []net.Interface) (*Server, error) {
	return &Server{}, nil
}

func (s *Server) Shutdown() {
	if s != nil {
		s.Down = true
	}
}
