// Package vdrpcserver stands in for storj.io/drpc/drpcserver in package remote (C17 controlled
// leg): accepts in-memory connections and runs the real drpcmux handler for every stream on a
// controlled thread. Like the real server, Serve closes the listener when its context is
// cancelled, cancels the active connections and returns once they are done.
package vdrpcserver

import (
	"context"
	"net"

	"github.com/anthdm/hollywood/zzverif/vnet"
	"github.com/anthdm/hollywood/zzverif/vsched"
	"storj.io/drpc"
	"storj.io/drpc/drpcmanager"
)

type Options struct {
	Manager drpcmanager.Options
}

type Server struct {
	handler drpc.Handler
}

func New(h drpc.Handler) *Server                           { return &Server{handler: h} }
func NewWithOptions(h drpc.Handler, opts Options) *Server { return &Server{handler: h} }

func (s *Server) Serve(ctx context.Context, lis net.Listener) error {
	var wg vsched.WaitGroup
	vsched.Go("vdrpcserver/ctx-watch", func() {
		vsched.Recv(ctx.Done())
		lis.Close()
	})
	for {
		conn, err := lis.Accept()
		if err != nil {
			break
		}
		mc := conn.(*vnet.MemConn)
		wg.Add(1)
		vsched.Go("vdrpcserver/conn", func() {
			defer wg.Done()
			s.serveOne(ctx, mc)
		})
	}
	wg.Wait()
	return nil
}

func (s *Server) serveOne(ctx context.Context, mc *vnet.MemConn) {
	var wg vsched.WaitGroup
	vsched.Go("vdrpcserver/conn-watch", func() {
		// server stopped or connection gone: tear the connection down
		vsched.Select(false, vsched.RecvCase(ctx.Done()), vsched.RecvCase(mc.ClosedCh()))
		mc.Close()
	})
	for {
		req, ok := vsched.Recv2(mc.Incoming())
		if !ok {
			break
		}
		req.Stream.SetContext(ctx)
		req.Stream.Canceled = true
		wg.Add(1)
		vsched.Go("vdrpcserver/stream", func() {
			defer wg.Done()
			_ = s.handler.HandleRPC(req.Stream, req.RPC)
			req.Stream.CloseSend()
		})
	}
	wg.Wait()
}
