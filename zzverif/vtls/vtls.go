// Package vtls stands in for "crypto/tls" in package remote under the in-memory transport.
// TLS is not exercised by any listed property (assumption A5).
package vtls

import (
	"crypto/tls"
	"errors"
	"net"
)

type Config = tls.Config

func Dial(network, addr string, config *Config) (net.Conn, error) {
	return nil, errors.New("vtls: TLS is not modelled by the in-memory transport")
}

func Listen(network, laddr string, config *Config) (net.Listener, error) {
	return nil, errors.New("vtls: TLS is not modelled by the in-memory transport")
}
