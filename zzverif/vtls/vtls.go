// Package vtls stands in for "crypto/tls" in package remote under the in-memory transport: a
// pass-through over vnet (no encryption, no handshake - the properties say nothing about either)
// that keeps the SHAPE of the real API, because the shape matters: tls.Dial returns a *Conn, and a
// failed dial returns a nil *Conn which, stored in a net.Conn variable, is not == nil (D28).
package vtls

import (
	"crypto/tls"
	"net"

	"github.com/anthdm/hollywood/zzverif/vnet"
)

type Config = tls.Config

// Conn wraps the in-memory connection. Methods are promoted from the embedded net.Conn: calling
// one on a nil *Conn panics, as with the real *tls.Conn.
type Conn struct{ net.Conn }

// NetConn returns the wrapped connection (as the real tls.Conn does).
func (c *Conn) NetConn() net.Conn { return c.Conn }

func Dial(network, addr string, config *Config) (*Conn, error) {
	c, err := vnet.Dial(network, addr)
	if err != nil {
		return nil, err
	}
	return &Conn{c}, nil
}

func Listen(network, laddr string, config *Config) (net.Listener, error) {
	return vnet.Listen(network, laddr)
}
