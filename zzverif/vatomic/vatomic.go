// Package vatomic stands in for "sync/atomic" in rewritten repository sources.
package vatomic

import (
	"unsafe"

	"github.com/anthdm/hollywood/zzverif/vsched"
)

var (
	LoadInt32            = vsched.LoadInt32
	StoreInt32           = vsched.StoreInt32
	SwapInt32            = vsched.SwapInt32
	AddInt32             = vsched.AddInt32
	CompareAndSwapInt32  = vsched.CompareAndSwapInt32
	LoadInt64            = vsched.LoadInt64
	StoreInt64           = vsched.StoreInt64
	SwapInt64            = vsched.SwapInt64
	AddInt64             = vsched.AddInt64
	CompareAndSwapInt64  = vsched.CompareAndSwapInt64
	LoadUint32           = vsched.LoadUint32
	StoreUint32          = vsched.StoreUint32
	SwapUint32           = vsched.SwapUint32
	AddUint32            = vsched.AddUint32
	CompareAndSwapUint32 = vsched.CompareAndSwapUint32
)

type Uint32 struct{ v uint32 }

func (x *Uint32) Load() uint32                    { return vsched.LoadUint32(&x.v) }
func (x *Uint32) Store(v uint32)                  { vsched.StoreUint32(&x.v, v) }
func (x *Uint32) Swap(v uint32) uint32            { return vsched.SwapUint32(&x.v, v) }
func (x *Uint32) Add(d uint32) uint32             { return vsched.AddUint32(&x.v, d) }
func (x *Uint32) CompareAndSwap(o, n uint32) bool { return vsched.CompareAndSwapUint32(&x.v, o, n) }

type Int32 struct{ v int32 }

func (x *Int32) Load() int32                    { return vsched.LoadInt32(&x.v) }
func (x *Int32) Store(v int32)                  { vsched.StoreInt32(&x.v, v) }
func (x *Int32) Swap(v int32) int32             { return vsched.SwapInt32(&x.v, v) }
func (x *Int32) Add(d int32) int32              { return vsched.AddInt32(&x.v, d) }
func (x *Int32) CompareAndSwap(o, n int32) bool { return vsched.CompareAndSwapInt32(&x.v, o, n) }

type Int64 struct{ v int64 }

func (x *Int64) Load() int64                    { return vsched.LoadInt64(&x.v) }
func (x *Int64) Store(v int64)                  { vsched.StoreInt64(&x.v, v) }
func (x *Int64) Swap(v int64) int64             { return vsched.SwapInt64(&x.v, v) }
func (x *Int64) Add(d int64) int64              { return vsched.AddInt64(&x.v, d) }
func (x *Int64) CompareAndSwap(o, n int64) bool { return vsched.CompareAndSwapInt64(&x.v, o, n) }

type Bool struct{ v uint32 }

func (x *Bool) Load() bool { return vsched.LoadUint32(&x.v) != 0 }
func (x *Bool) Store(v bool) {
	if v {
		vsched.StoreUint32(&x.v, 1)
	} else {
		vsched.StoreUint32(&x.v, 0)
	}
}

type Uint64 struct{ v uint64 }

func (x *Uint64) Load() (r uint64) {
	vsched.AtomicDo(unsafe.Pointer(x), func() (bool, uint64) { r = x.v; return false, r })
	return
}
func (x *Uint64) Store(v uint64) {
	vsched.AtomicDo(unsafe.Pointer(x), func() (bool, uint64) { x.v = v; return true, v })
}
func (x *Uint64) Add(d uint64) (r uint64) {
	vsched.AtomicDo(unsafe.Pointer(x), func() (bool, uint64) { x.v += d; r = x.v; return true, r })
	return
}
func (x *Uint64) CompareAndSwap(o, n uint64) (ok bool) {
	vsched.AtomicDo(unsafe.Pointer(x), func() (bool, uint64) {
		if x.v == o {
			x.v, ok = n, true
			return true, 1
		}
		return false, 0
	})
	return
}

// Pointer is atomic.Pointer[T]: every operation is one scheduling point.
type Pointer[T any] struct{ p *T }

func (x *Pointer[T]) Load() (r *T) {
	vsched.AtomicDo(unsafe.Pointer(x), func() (bool, uint64) { r = x.p; return false, 0 })
	return
}
func (x *Pointer[T]) Store(v *T) {
	vsched.AtomicDo(unsafe.Pointer(x), func() (bool, uint64) { x.p = v; return true, 0 })
}
func (x *Pointer[T]) Swap(v *T) (old *T) {
	vsched.AtomicDo(unsafe.Pointer(x), func() (bool, uint64) { old, x.p = x.p, v; return true, 0 })
	return
}
func (x *Pointer[T]) CompareAndSwap(o, n *T) (ok bool) {
	vsched.AtomicDo(unsafe.Pointer(x), func() (bool, uint64) {
		if x.p == o {
			x.p, ok = n, true
			return true, 1
		}
		return false, 0
	})
	return
}

// Value is atomic.Value.
type Value struct{ v any }

func (x *Value) Load() (r any) {
	vsched.AtomicDo(unsafe.Pointer(x), func() (bool, uint64) { r = x.v; return false, 0 })
	return
}
func (x *Value) Store(v any) {
	vsched.AtomicDo(unsafe.Pointer(x), func() (bool, uint64) { x.v = v; return true, 0 })
}
