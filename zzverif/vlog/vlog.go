// Package vlog stands in for "log" in rewritten repository sources: Fatal is recorded.
package vlog

import "fmt"

var Fatals []string

func Fatal(v ...any) {
	Fatals = append(Fatals, fmt.Sprint(v...))
	panic("log.Fatal: " + fmt.Sprint(v...))
}
func Fatalf(f string, v ...any) { Fatal(fmt.Sprintf(f, v...)) }
func Println(v ...any)          {}
func Printf(f string, v ...any) {}
func Print(v ...any)            {}
