// Package vtime stands in for "time" in rewritten repository sources: virtual clock.
package vtime

import (
	"time"

	"github.com/anthdm/hollywood/zzverif/vsched"
)

type Duration = time.Duration
type Time = time.Time
type Month = time.Month
type Ticker = vsched.Ticker
type Timer = vsched.Timer

const (
	Nanosecond  = time.Nanosecond
	Microsecond = time.Microsecond
	Millisecond = time.Millisecond
	Second      = time.Second
	Minute      = time.Minute
	Hour        = time.Hour
	RFC3339     = time.RFC3339
)

var (
	Now       = vsched.Now
	Sleep     = vsched.Sleep
	NewTicker = vsched.NewTicker
	NewTimer  = vsched.NewTimer
	After     = vsched.After
	AfterFunc = vsched.AfterFunc
)

func Since(t Time) Duration { return vsched.Now().Sub(t) }
func Until(t Time) Duration { return t.Sub(vsched.Now()) }
func Unix(s, ns int64) Time { return time.Unix(s, ns) }
