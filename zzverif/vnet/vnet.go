// Package vnet stands in for "net" in package remote (C17 controlled leg): an in-memory,
// message-level network under the vsched scheduler. Listen/Dial work on a per-execution table
// of listeners; whether a dial succeeds is decided by the harness (FailDials / Down), which is
// how "peer down / peer up" fault sequences are enumerated. A connection is a reliable FIFO
// pipe per stream; bytes are the real protobuf encodings produced by the generated drpc glue.
package vnet

import (
	"context"
	"errors"
	"io"
	"net"
	"time"

	"github.com/anthdm/hollywood/zzverif/vsched"
	"storj.io/drpc"
)

type Conn = net.Conn
type Listener = net.Listener
type Addr = net.Addr

type netState struct {
	listeners map[string]*MemListener
	FailDials map[string]int // address -> number of further dial attempts that fail although the peer listens
	Dials     map[string]int // address -> dial attempts seen
	Accepted  map[string]int // address -> connections accepted
}

var state = newState()

func newState() *netState {
	return &netState{listeners: map[string]*MemListener{}, FailDials: map[string]int{}, Dials: map[string]int{}, Accepted: map[string]int{}}
}

// Reset starts a fresh network (called by the harness at the start of every execution).
func Reset() { state = newState() }

// FailNextDials makes the next n dial attempts to addr fail (peer unreachable).
func FailNextDials(addr string, n int) { state.FailDials[addr] = n }

// DialAttempts returns how many dials to addr were attempted.
func DialAttempts(addr string) int { return state.Dials[addr] }

// Listening reports whether somebody accepts connections on addr.
func Listening(addr string) bool {
	l := state.listeners[addr]
	return l != nil && !l.closed
}

type memAddr string

func (a memAddr) Network() string { return "mem" }
func (a memAddr) String() string  { return string(a) }

// ---------------------------------------------------------------- listener

type MemListener struct {
	addr   string
	accept chan *MemConn
	closed bool
}

func Listen(network, addr string) (net.Listener, error) {
	if l := state.listeners[addr]; l != nil && !l.closed {
		return nil, errors.New("listen " + addr + ": address already in use")
	}
	l := &MemListener{addr: addr, accept: make(chan *MemConn, 64)}
	state.listeners[addr] = l
	return l, nil
}

func (l *MemListener) Accept() (net.Conn, error) {
	c, ok := vsched.Recv2(l.accept)
	if !ok {
		return nil, errors.New("use of closed network connection")
	}
	state.Accepted[l.addr]++
	return c, nil
}

func (l *MemListener) Close() error {
	if l.closed {
		return nil
	}
	l.closed = true
	vsched.Close(l.accept)
	return nil
}

func (l *MemListener) Addr() net.Addr { return memAddr(l.addr) }

// ---------------------------------------------------------------- connection

// StreamReq is a new stream announced by the dialing side.
type StreamReq struct {
	RPC    string
	Stream *MemStream // server side end
}

type connCore struct {
	closed   bool
	closedCh chan struct{}
	streams  chan *StreamReq
	all      []*MemStream
}

// MemConn is one end of an in-memory connection.
type MemConn struct {
	core   *connCore
	local  string
	remote string
	server bool
}

func Dial(network, addr string) (net.Conn, error) {
	state.Dials[addr]++
	if n := state.FailDials[addr]; n > 0 {
		state.FailDials[addr] = n - 1
		return nil, errors.New("dial tcp " + addr + ": connect: connection refused")
	}
	l := state.listeners[addr]
	if l == nil || l.closed {
		return nil, errors.New("dial tcp " + addr + ": connect: connection refused")
	}
	core := &connCore{closedCh: make(chan struct{}), streams: make(chan *StreamReq, 16)}
	cl := &MemConn{core: core, local: "client", remote: addr}
	sv := &MemConn{core: core, local: addr, remote: "client", server: true}
	if !vsched.SendOrClosed(l.accept, sv) {
		return nil, errors.New("dial tcp " + addr + ": connect: connection refused")
	}
	return cl, nil
}

func (c *MemConn) Read([]byte) (int, error)         { return 0, errors.New("vnet: byte-level I/O is not modelled") }
func (c *MemConn) Write(b []byte) (int, error)      { return 0, errors.New("vnet: byte-level I/O is not modelled") }
func (c *MemConn) LocalAddr() net.Addr              { return memAddr(c.local) }
func (c *MemConn) RemoteAddr() net.Addr             { return memAddr(c.remote) }
func (c *MemConn) SetDeadline(time.Time) error      { return nil }
func (c *MemConn) SetReadDeadline(time.Time) error  { return nil }
func (c *MemConn) SetWriteDeadline(time.Time) error { return nil }

// Close tears the connection down for both ends: every blocked receive ends.
func (c *MemConn) Close() error {
	core := c.core
	if core.closed {
		return nil
	}
	core.closed = true
	vsched.Close(core.closedCh)
	vsched.Close(core.streams)
	for _, s := range core.all {
		s.shut()
	}
	return nil
}

func (c *MemConn) IsClosed() bool              { return c.core.closed }
func (c *MemConn) ClosedCh() <-chan struct{}   { return c.core.closedCh }
func (c *MemConn) Incoming() <-chan *StreamReq { return c.core.streams }

// OpenStream creates a stream pair and announces the server end to the peer.
func (c *MemConn) OpenStream(ctx context.Context, rpc string) (*MemStream, error) {
	if c.core.closed {
		return nil, errors.New("vnet: connection closed")
	}
	a2b, b2a := &pipe{ch: make(chan []byte, 4096)}, &pipe{ch: make(chan []byte, 4096)}
	cl := &MemStream{ctx: ctx, in: b2a, out: a2b}
	sv := &MemStream{ctx: context.Background(), in: a2b, out: b2a}
	c.core.all = append(c.core.all, cl, sv)
	if !vsched.SendOrClosed(c.core.streams, &StreamReq{RPC: rpc, Stream: sv}) {
		return nil, errors.New("vnet: connection closed")
	}
	return cl, nil
}

// ---------------------------------------------------------------- stream

type pipe struct {
	ch     chan []byte
	closed bool
}

func (p *pipe) close() {
	if !p.closed {
		p.closed = true
		vsched.Close(p.ch)
	}
}

// MemStream implements drpc.Stream over two in-memory pipes.
type MemStream struct {
	ctx context.Context
	in  *pipe
	out *pipe
	// Canceled: receives report context.Canceled instead of io.EOF once the pipe is shut
	// (what a drpc server-side stream reports when the server is stopped)
	Canceled bool
}

func (s *MemStream) SetContext(ctx context.Context) { s.ctx = ctx }
func (s *MemStream) Context() context.Context       { return s.ctx }

func (s *MemStream) MsgSend(m drpc.Message, enc drpc.Encoding) error {
	b, err := enc.Marshal(m)
	if err != nil {
		return err
	}
	if s.out.closed || !vsched.SendOrClosed(s.out.ch, b) {
		return io.EOF
	}
	return nil
}

func (s *MemStream) MsgRecv(m drpc.Message, enc drpc.Encoding) error {
	b, ok := vsched.Recv2(s.in.ch)
	if !ok {
		if s.Canceled {
			return context.Canceled
		}
		return io.EOF
	}
	return enc.Unmarshal(b, m)
}

func (s *MemStream) CloseSend() error { s.out.close(); return nil }
func (s *MemStream) Close() error     { s.out.close(); s.in.close(); return nil }
func (s *MemStream) shut()            { s.out.close(); s.in.close() }
