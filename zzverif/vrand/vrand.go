// Package vrand stands in for "math/rand" in rewritten repository sources: successive
// distinct values (assumption A3: random ids never collide).
package vrand

import "github.com/anthdm/hollywood/zzverif/vsched"

func Intn(n int) int       { return vsched.RandIntn(n) }
func Int() int             { return vsched.RandIntn(0) }
func Int63() int64         { return int64(vsched.RandIntn(0)) }
func Int31n(n int32) int32 { return int32(vsched.RandIntn(int(n))) }
