// Package vrand stands in for "math/rand" in rewritten repository sources: successive
// distinct values (assumption A3: random ids never collide).
package vrand

import "github.com/anthdm/hollywood/zzverif/vsched"

func Intn(n int) int       { return vsched.RandIntn(n) }
func Int() int             { return vsched.RandIntn(0) }
func Int63() int64         { return int64(vsched.RandIntn(0)) }
func Int31n(n int32) int32 { return int32(vsched.RandIntn(int(n))) }

// A private *Rand (rand.New(rand.NewSource(..))) is NOT safe for concurrent use in the real
// library, unlike the package-level functions. The stand-in models exactly that: drawing a
// value is a read, a scheduling point and a write, so two threads that share one Rand without
// synchronisation can be handed the same value; used from one thread (or under a lock) the
// values are successive and distinct like those of the global source.
type Source interface {
	Int63() int64
	Seed(seed int64)
}

type source struct{}

func (source) Int63() int64 { return 0 }
func (source) Seed(int64)   {}

func NewSource(seed int64) Source { return source{} }

type Rand struct {
	next int
}

func New(src Source) *Rand { return &Rand{} }

func (r *Rand) draw() int {
	v := r.next
	vsched.Yield()
	r.next = v + 1
	return 500000 + v
}

func (r *Rand) Intn(n int) int {
	v := r.draw()
	if n > 0 && v >= n {
		v %= n
	}
	return v
}
func (r *Rand) Int() int             { return r.draw() }
func (r *Rand) Int63() int64         { return int64(r.draw()) }
func (r *Rand) Int31n(n int32) int32 { return int32(r.Intn(int(n))) }
func (r *Rand) Seed(int64)           {}
