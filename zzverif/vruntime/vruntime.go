// Package vruntime stands in for "runtime" in rewritten repository sources.
package vruntime

import (
	"runtime"

	"github.com/anthdm/hollywood/zzverif/vsched"
)

func Gosched()                                     { vsched.Yield() }
func Stack(buf []byte, all bool) int               { return runtime.Stack(buf, all) }
func Caller(skip int) (uintptr, string, int, bool) { return runtime.Caller(skip + 1) }
func NumGoroutine() int                            { return runtime.NumGoroutine() }
func GOMAXPROCS(n int) int                         { return runtime.GOMAXPROCS(n) }
