// Package vcontext stands in for "context" in rewritten repository sources.
package vcontext

import (
	"context"

	"github.com/anthdm/hollywood/zzverif/vsched"
)

type Context = context.Context
type CancelFunc = context.CancelFunc

var (
	Canceled         = context.Canceled
	DeadlineExceeded = context.DeadlineExceeded
	Background       = context.Background
	TODO             = context.TODO
	WithValue        = context.WithValue
	WithCancel       = vsched.WithCancel
	WithTimeout      = vsched.WithTimeout
	WithDeadline     = vsched.WithDeadline
)
