// Package vsync stands in for "sync" in rewritten repository sources.
package vsync

import (
	"fmt"
	"sort"
	"unsafe"

	"github.com/anthdm/hollywood/zzverif/vsched"
)

type Mutex = vsched.Mutex
type RWMutex = vsched.RWMutex
type WaitGroup = vsched.WaitGroup
type Locker interface {
	Lock()
	Unlock()
}

// Pool is sync.Pool with deterministic behaviour: a LIFO free list that is emptied at the start
// of every execution (objects cached by an earlier execution must not leak into the next one,
// or executions would no longer be reproducible). Get and Put are atomic steps.
type Pool struct {
	New   func() any
	items []any
	epoch uint64
}

func (p *Pool) Get() (v any) {
	vsched.AtomicDo(unsafe.Pointer(p), func() (bool, uint64) {
		if p.epoch != vsched.Epoch() {
			p.items, p.epoch = nil, vsched.Epoch()
		}
		if n := len(p.items); n > 0 {
			v = p.items[n-1]
			p.items = p.items[:n-1]
		}
		return true, 0
	})
	if v == nil && p.New != nil {
		v = p.New()
	}
	return v
}

func (p *Pool) Put(v any) {
	vsched.AtomicDo(unsafe.Pointer(p), func() (bool, uint64) {
		if p.epoch != vsched.Epoch() {
			p.items, p.epoch = nil, vsched.Epoch()
		}
		p.items = append(p.items, v)
		return true, 0
	})
}

// Once is sync.Once: the first caller runs f holding the Once; later callers wait for it.
type Once struct {
	mu   vsched.Mutex
	done bool
}

func (o *Once) Do(f func()) {
	o.mu.Lock()
	defer o.mu.Unlock()
	if !o.done {
		defer func() { o.done = true }()
		f()
	}
}

// Map is sync.Map: every method is one atomic operation (a scheduling point).
type Map struct {
	m map[any]any
}

func (m *Map) Load(key any) (v any, ok bool) {
	vsched.AtomicDo(unsafe.Pointer(m), func() (bool, uint64) { v, ok = m.m[key]; return false, 0 })
	return
}
func (m *Map) Store(key, value any) {
	vsched.AtomicDo(unsafe.Pointer(m), func() (bool, uint64) {
		if m.m == nil {
			m.m = map[any]any{}
		}
		m.m[key] = value
		return true, 0
	})
}
func (m *Map) LoadOrStore(key, value any) (actual any, loaded bool) {
	vsched.AtomicDo(unsafe.Pointer(m), func() (bool, uint64) {
		if m.m == nil {
			m.m = map[any]any{}
		}
		if actual, loaded = m.m[key]; loaded {
			return false, 0
		}
		m.m[key], actual = value, value
		return true, 0
	})
	return
}
func (m *Map) LoadAndDelete(key any) (v any, loaded bool) {
	vsched.AtomicDo(unsafe.Pointer(m), func() (bool, uint64) {
		v, loaded = m.m[key]
		delete(m.m, key)
		return true, 0
	})
	return
}
func (m *Map) Delete(key any) { m.LoadAndDelete(key) }
func (m *Map) Range(f func(key, value any) bool) {
	var keys []any
	vsched.AtomicDo(unsafe.Pointer(m), func() (bool, uint64) {
		for k := range m.m {
			keys = append(keys, k)
		}
		return false, 0
	})
	sort.Slice(keys, func(i, j int) bool { return fmt.Sprint(keys[i]) < fmt.Sprint(keys[j]) })
	for _, k := range keys {
		if v, ok := m.Load(k); ok && !f(k, v) {
			return
		}
	}
}
