// Package vsync stands in for "sync" in rewritten repository sources.
package vsync

import "github.com/anthdm/hollywood/zzverif/vsched"

type Mutex = vsched.Mutex
type RWMutex = vsched.RWMutex
type WaitGroup = vsched.WaitGroup
type Locker interface {
	Lock()
	Unlock()
}
