// Package vdrpcconn stands in for storj.io/drpc/drpcconn in package remote (C17 controlled
// leg): a drpc.Conn over the in-memory network of vnet.
package vdrpcconn

import (
	"context"
	"errors"
	"net"

	"github.com/anthdm/hollywood/zzverif/vnet"
	"storj.io/drpc"
	"storj.io/drpc/drpcmanager"
)

type Options struct {
	Manager drpcmanager.Options
}

type Conn struct {
	mc *vnet.MemConn
}

func New(tr net.Conn) *Conn { return NewWithOptions(tr, Options{}) }

func NewWithOptions(tr net.Conn, opts Options) *Conn {
	if u, isWrapped := tr.(interface{ NetConn() net.Conn }); isWrapped { // the TLS pass-through wraps the in-memory connection
		tr = u.NetConn()
	}
	mc, ok := tr.(*vnet.MemConn)
	if !ok {
		panic("vdrpcconn: transport is not an in-memory connection")
	}
	return &Conn{mc: mc}
}

func (c *Conn) Close() error            { return c.mc.Close() }
func (c *Conn) Closed() <-chan struct{} { return c.mc.ClosedCh() }
func (c *Conn) Transport() drpc.Transport { return nil }

func (c *Conn) Invoke(ctx context.Context, rpc string, enc drpc.Encoding, in, out drpc.Message) error {
	return errors.New("vdrpcconn: unary RPCs are not used by package remote")
}

func (c *Conn) NewStream(ctx context.Context, rpc string, enc drpc.Encoding) (drpc.Stream, error) {
	return c.mc.OpenStream(ctx, rpc)
}
