package vsched

import (
	"fmt"
	"reflect"
	"sort"
	"unsafe"
)

// ---------------------------------------------------------------- Mutex / RWMutex

type Mutex struct {
	locked bool
	o      *obj
	w      *World
}

func (m *Mutex) obj(w *World) *obj {
	if m.w != w {
		m.w, m.o, m.locked = w, w.newObj(w.cur), false
	}
	return m.o
}

func (m *Mutex) Lock() {
	w := live()
	if w == nil {
		return
	}
	o := m.obj(w)
	t := w.cur
	t.p = pend{kind: KLock, mu: m}
	w.point()
	m.locked = true
	w.event(t, KLock, o, true, 0)
}

func (m *Mutex) TryLock() bool {
	w := live()
	if w == nil {
		return true
	}
	o := m.obj(w)
	t := w.cur
	t.p = pend{kind: KYield}
	w.point()
	if m.locked {
		w.event(t, KLoad, o, false, 0)
		return false
	}
	m.locked = true
	w.event(t, KLock, o, true, 1)
	return true
}

func (m *Mutex) Unlock() {
	w := live()
	if w == nil {
		return
	}
	o := m.obj(w)
	if !m.locked {
		panic("vsched: unlock of unlocked mutex")
	}
	m.locked = false
	w.event(w.cur, KUnlock, o, true, 0)
}

// RWMutex models sync.RWMutex including its writer preference: Lock is two steps - the writer
// announces itself (from then on RLock blocks), then waits until the readers that were inside
// have left. A goroutine that read-locks recursively can therefore deadlock with a writer that
// arrives in between, exactly as with the real thing.
type RWMutex struct {
	w   bool
	ann bool // a writer has announced itself or holds the lock
	r   int
	o  *obj
	wd *World
}

func (m *RWMutex) obj(w *World) *obj {
	if m.wd != w {
		m.wd, m.o, m.w, m.r, m.ann = w, w.newObj(w.cur), false, 0, false
	}
	return m.o
}

func (m *RWMutex) Lock() {
	w := live()
	if w == nil {
		return
	}
	o := m.obj(w)
	t := w.cur
	t.p = pend{kind: KLockAnn, rw: m}
	w.point()
	m.ann = true
	w.event(t, KLockAnn, o, true, 0)
	if m.r > 0 { // readers inside: wait for them (a second scheduling point only when it can matter)
		t.p = pend{kind: KLock, rw: m}
		w.point()
	}
	m.w = true
	w.event(t, KLock, o, true, 0)
}

func (m *RWMutex) Unlock() {
	w := live()
	if w == nil {
		return
	}
	o := m.obj(w)
	if !m.w {
		panic("vsched: unlock of unlocked rwmutex")
	}
	m.w, m.ann = false, false
	w.event(w.cur, KUnlock, o, true, 0)
}

func (m *RWMutex) RLock() {
	w := live()
	if w == nil {
		return
	}
	o := m.obj(w)
	t := w.cur
	t.p = pend{kind: KRLock, rw: m}
	w.point()
	m.r++
	w.event(t, KRLock, o, false, 0)
}

func (m *RWMutex) RUnlock() {
	w := live()
	if w == nil {
		return
	}
	o := m.obj(w)
	if m.r <= 0 {
		panic("vsched: runlock of unlocked rwmutex")
	}
	m.r--
	w.event(w.cur, KRUnlock, o, false, 0)
}

// ---------------------------------------------------------------- WaitGroup

type WaitGroup struct {
	n  int
	o  *obj
	wd *World
}

func (g *WaitGroup) obj(w *World) *obj {
	if g.wd != w {
		g.wd, g.o, g.n = w, w.newObj(w.cur), 0
	}
	return g.o
}

func (g *WaitGroup) Add(d int) {
	w := live()
	if w == nil {
		return
	}
	o := g.obj(w)
	t := w.cur
	t.p = pend{kind: KWgAdd}
	w.point()
	g.n += d
	if g.n < 0 {
		panic("sync: negative WaitGroup counter")
	}
	w.event(t, KWgAdd, o, true, uint64(g.n))
}

func (g *WaitGroup) Done() { g.Add(-1) }

func (g *WaitGroup) Wait() {
	w := live()
	if w == nil {
		return
	}
	o := g.obj(w)
	t := w.cur
	t.p = pend{kind: KWgWait, wg: g}
	w.point()
	w.event(t, KWgWait, o, true, 0)
}

// ---------------------------------------------------------------- atomics

func atomicPoint(p unsafe.Pointer) (*World, *Thread, *obj) {
	w := live()
	if w == nil {
		return nil, nil, nil
	}
	o := w.objAt(uintptr(p))
	t := w.cur
	t.p = pend{kind: KStore}
	w.point()
	return w, t, o
}

// AtomicDo runs f as one atomic operation on the object identified by p, with a scheduling
// point in front of it. f reports whether it wrote; the shims build further atomic types
// (atomic.Pointer, atomic.Value, sync.Map, sync.Once) on it.
func AtomicDo(p unsafe.Pointer, f func() (write bool, result uint64)) {
	w, t, o := atomicPoint(p)
	wr, res := f()
	if w != nil {
		if wr {
			w.event(t, KStore, o, true, res)
		} else {
			w.event(t, KLoad, o, false, res)
		}
	}
}

func LoadInt32(p *int32) int32 {
	w, t, o := atomicPoint(unsafe.Pointer(p))
	v := *p
	if w != nil {
		w.event(t, KLoad, o, false, uint64(v))
	}
	return v
}

func StoreInt32(p *int32, v int32) {
	w, t, o := atomicPoint(unsafe.Pointer(p))
	*p = v
	if w != nil {
		w.event(t, KStore, o, true, uint64(v))
	}
}

func SwapInt32(p *int32, v int32) int32 {
	w, t, o := atomicPoint(unsafe.Pointer(p))
	old := *p
	*p = v
	if w != nil {
		w.event(t, KStore, o, true, uint64(old))
	}
	return old
}

func AddInt32(p *int32, d int32) int32 {
	w, t, o := atomicPoint(unsafe.Pointer(p))
	*p += d
	if w != nil {
		w.event(t, KStore, o, true, uint64(*p))
	}
	return *p
}

func CompareAndSwapInt32(p *int32, old, nw int32) bool {
	w, t, o := atomicPoint(unsafe.Pointer(p))
	ok := *p == old
	if ok {
		*p = nw
	}
	if w != nil {
		if ok {
			w.event(t, KStore, o, true, 1)
		} else {
			// a failed CAS only reads
			w.event(t, KLoad, o, false, uint64(*p)<<1)
		}
	}
	return ok
}

func LoadInt64(p *int64) int64 {
	w, t, o := atomicPoint(unsafe.Pointer(p))
	v := *p
	if w != nil {
		w.event(t, KLoad, o, false, uint64(v))
	}
	return v
}

func StoreInt64(p *int64, v int64) {
	w, t, o := atomicPoint(unsafe.Pointer(p))
	*p = v
	if w != nil {
		w.event(t, KStore, o, true, uint64(v))
	}
}

func AddInt64(p *int64, d int64) int64 {
	w, t, o := atomicPoint(unsafe.Pointer(p))
	*p += d
	if w != nil {
		w.event(t, KStore, o, true, uint64(*p))
	}
	return *p
}

func SwapInt64(p *int64, v int64) int64 {
	w, t, o := atomicPoint(unsafe.Pointer(p))
	old := *p
	*p = v
	if w != nil {
		w.event(t, KStore, o, true, uint64(old))
	}
	return old
}

func CompareAndSwapInt64(p *int64, old, nw int64) bool {
	w, t, o := atomicPoint(unsafe.Pointer(p))
	ok := *p == old
	if ok {
		*p = nw
	}
	if w != nil {
		if ok {
			w.event(t, KStore, o, true, 1)
		} else {
			w.event(t, KLoad, o, false, uint64(*p)<<1)
		}
	}
	return ok
}

func LoadUint32(p *uint32) uint32 {
	w, t, o := atomicPoint(unsafe.Pointer(p))
	v := *p
	if w != nil {
		w.event(t, KLoad, o, false, uint64(v))
	}
	return v
}

func StoreUint32(p *uint32, v uint32) {
	w, t, o := atomicPoint(unsafe.Pointer(p))
	*p = v
	if w != nil {
		w.event(t, KStore, o, true, uint64(v))
	}
}

func SwapUint32(p *uint32, v uint32) uint32 {
	w, t, o := atomicPoint(unsafe.Pointer(p))
	old := *p
	*p = v
	if w != nil {
		w.event(t, KStore, o, true, uint64(old))
	}
	return old
}

func AddUint32(p *uint32, d uint32) uint32 {
	w, t, o := atomicPoint(unsafe.Pointer(p))
	*p += d
	if w != nil {
		w.event(t, KStore, o, true, uint64(*p))
	}
	return *p
}

func CompareAndSwapUint32(p *uint32, old, nw uint32) bool {
	w, t, o := atomicPoint(unsafe.Pointer(p))
	ok := *p == old
	if ok {
		*p = nw
	}
	if w != nil {
		if ok {
			w.event(t, KStore, o, true, 1)
		} else {
			w.event(t, KLoad, o, false, uint64(*p)<<1)
		}
	}
	return ok
}

// ---------------------------------------------------------------- channels (fully modelled)

type chanState struct {
	cap    int
	q      []any
	closed bool
	o      *obj
	keep   any
}

func (w *World) chanOf(ch any) *chanState {
	v := reflect.ValueOf(ch)
	if v.IsNil() {
		return nil
	}
	p := v.Pointer()
	c := w.chans[p]
	if c == nil {
		c = &chanState{cap: v.Cap(), o: w.newObj(w.cur), keep: ch}
		w.chans[p] = c
	}
	return c
}

func chanOfT[T any](w *World, ch chan T) *chanState {
	if ch == nil {
		return nil
	}
	p := uintptr(*(*unsafe.Pointer)(unsafe.Pointer(&ch)))
	c := w.chans[p]
	if c == nil {
		c = &chanState{cap: cap(ch), o: w.newObj(w.cur), keep: ch}
		w.chans[p] = c
	}
	return c
}

// Send is `ch <- v`.
func Send[T any](ch chan<- T, v T) {
	w := live()
	if w == nil {
		return
	}
	c := w.chanOf(ch)
	t := w.cur
	t.p = pend{kind: KSend, ch: c, val: v}
	w.point2send(t, c, v)
}

func (w *World) point2send(t *Thread, c *chanState, v any) {
	w.schedule(t, false)
	taken := t.p.taken
	t.p.kind = KNone
	t.p.val = nil
	if c.closed && !taken {
		w.event(t, KSend, c.o, true, 2)
		panic("send on closed channel")
	}
	if !taken {
		c.q = append(c.q, v)
	}
	w.event(t, KSend, c.o, true, 0)
}

func (w *World) doRecv(t *Thread, c *chanState) (any, bool) {
	if len(c.q) > 0 {
		v := c.q[0]
		c.q[0] = nil
		c.q = c.q[1:]
		w.event(t, KRecv, c.o, true, 1)
		return v, true
	}
	if c.cap == 0 {
		for _, s := range w.threads {
			if !s.done && s.p.kind == KSend && s.p.ch == c && !s.p.taken {
				s.p.taken = true
				w.event(t, KRecv, c.o, true, 1)
				return s.p.val, true
			}
		}
	}
	if c.closed {
		w.event(t, KRecv, c.o, true, 0)
		return nil, false
	}
	panic("vsched: receive scheduled on a channel that is not ready")
}

// SendOrClosed is `ch <- v` that reports false instead of panicking when the channel is (or
// gets) closed; used by the in-memory transport, where a closed pipe is an ordinary outcome.
func SendOrClosed[T any](ch chan<- T, v T) bool {
	w := live()
	if w == nil {
		return false
	}
	c := w.chanOf(ch)
	t := w.cur
	t.p = pend{kind: KSend, ch: c, val: v}
	w.schedule(t, false)
	taken := t.p.taken
	t.p.kind = KNone
	t.p.val = nil
	if c.closed && !taken {
		w.event(t, KSend, c.o, true, 2)
		return false
	}
	if !taken {
		c.q = append(c.q, v)
	}
	w.event(t, KSend, c.o, true, 0)
	return true
}

// IsClosed reports whether a modelled channel has been closed (no scheduling point).
func IsClosed[T any](ch chan T) bool {
	w := live()
	if w == nil {
		return false
	}
	c := chanOfT(w, ch)
	return c != nil && c.closed
}

// Recv2 is `v, ok := <-ch`.
func Recv2[T any](ch <-chan T) (T, bool) {
	var zero T
	w := live()
	if w == nil {
		return zero, false
	}
	c := w.chanOf(ch)
	t := w.cur
	t.p = pend{kind: KRecv, ch: c}
	w.point()
	v, ok := w.doRecv(t, c)
	if !ok {
		return zero, false
	}
	return v.(T), true
}

// Recv is `<-ch`.
func Recv[T any](ch <-chan T) T {
	v, _ := Recv2(ch)
	return v
}

// Close is `close(ch)`.
func Close[T any](ch chan T) {
	w := live()
	if w == nil {
		return
	}
	c := chanOfT(w, ch)
	if c == nil {
		panic("close of nil channel")
	}
	t := w.cur
	t.p = pend{kind: KClose}
	w.point()
	if c.closed {
		panic("close of closed channel")
	}
	c.closed = true
	w.event(t, KClose, c.o, true, 0)
}

// closeNoPoint closes a modelled channel from scheduler context (timer firing, cancel).
func (w *World) closeNoPoint(t *Thread, ch chan struct{}) {
	c := chanOfT(w, ch)
	if c.closed {
		return
	}
	c.closed = true
	if t != nil {
		w.event(t, KClose, c.o, true, 0)
	} else {
		c.o.wHash = mix(c.o.wHash, 0xc105ed)
	}
}

// SelCase describes one communication clause of a select statement.
type SelCase struct {
	c    any
	send bool
}

func RecvCase[T any](ch <-chan T) SelCase { return SelCase{c: ch} }
func SendCase[T any](ch chan<- T) SelCase { return SelCase{c: ch, send: true} }

// Select blocks until one of the cases is ready and returns its index (-1 = default).
// If several are ready the choice is a scheduler data choice. The caller then performs
// the communication with RecvNow/SendNow.
func Select(hasDefault bool, cases ...SelCase) int {
	w := live()
	if w == nil {
		if hasDefault {
			return -1
		}
		return 0
	}
	t := w.cur
	sel := make([]selCase, len(cases))
	for i, c := range cases {
		sel[i] = selCase{ch: w.chanOf(c.c), send: c.send}
	}
	t.p = pend{kind: KSelect, sel: sel, selDef: hasDefault}
	w.point()
	var ready []int
	for i, sc := range sel {
		if sc.send {
			if w.sendReady(sc.ch) {
				ready = append(ready, i)
			}
		} else if w.recvReady(sc.ch) {
			if sc.ch.cap == 0 && len(sc.ch.q) == 0 && !sc.ch.closed {
				panic("vsched: select receiving from an unbuffered data channel is not supported")
			}
			ready = append(ready, i)
		}
	}
	if len(ready) == 0 {
		if hasDefault {
			w.event(t, KSelect, nil, false, 0)
			return -1
		}
		panic("vsched: select scheduled with no ready case")
	}
	k := 0
	if len(ready) > 1 {
		k = chooseCost(len(ready), 0, KSelect)
	}
	return ready[k]
}

// RecvNow2 performs a receive that Select has determined to be ready (no scheduling point).
func RecvNow2[T any](ch <-chan T) (T, bool) {
	var zero T
	w := live()
	if w == nil {
		return zero, false
	}
	c := w.chanOf(ch)
	v, ok := w.doRecv(w.cur, c)
	if !ok {
		return zero, false
	}
	return v.(T), true
}

func RecvNow[T any](ch <-chan T) T {
	v, _ := RecvNow2(ch)
	return v
}

// SendNow performs a send that Select has determined to be ready.
func SendNow[T any](ch chan<- T, v T) {
	w := live()
	if w == nil {
		return
	}
	c := w.chanOf(ch)
	if c.closed {
		panic("send on closed channel")
	}
	c.q = append(c.q, v)
	w.event(w.cur, KSend, c.o, true, 0)
}

// TrySend is the non-blocking send `select { case ch <- v: default: }` as one step.
func ChanLen[T any](ch chan T) int {
	w := live()
	if w == nil {
		return 0
	}
	c := chanOfT(w, ch)
	if c == nil {
		return 0
	}
	return len(c.q)
}

// ---------------------------------------------------------------- map iteration order

// MapKeys returns the keys of m in a canonical order (sorted by their printed form); for
// small maps the other permutations are scheduler choices costing one deviation.
func MapKeys[M ~map[K]V, K comparable, V any](m M) []K {
	keys := make([]K, 0, len(m))
	for k := range m {
		keys = append(keys, k)
	}
	if len(keys) < 2 {
		return keys
	}
	strs := make([]string, len(keys))
	idx := make([]int, len(keys))
	for i, k := range keys {
		if s, ok := any(k).(string); ok {
			strs[i] = s
		} else {
			strs[i] = fmt.Sprint(k)
		}
		idx[i] = i
	}
	sort.SliceStable(idx, func(a, b int) bool { return strs[idx[a]] < strs[idx[b]] })
	out := make([]K, len(keys))
	for i, j := range idx {
		out[i] = keys[j]
	}
	w := live()
	if w == nil || !MapOrderChoices {
		return out
	}
	n := len(out)
	var nperm int
	switch n {
	case 2:
		nperm = 2
	case 3:
		nperm = 6
	default:
		nperm = 2
	}
	c := chooseCost(nperm, 1, KMapOrder)
	if c == 0 {
		return out
	}
	if n > 3 || n == 2 {
		for i, j := 0, n-1; i < j; i, j = i+1, j-1 {
			out[i], out[j] = out[j], out[i]
		}
		return out
	}
	perms := [6][3]int{{0, 1, 2}, {0, 2, 1}, {1, 0, 2}, {1, 2, 0}, {2, 0, 1}, {2, 1, 0}}
	p := perms[c]
	return []K{out[p[0]], out[p[1]], out[p[2]]}
}

// MapOrderChoices turns alternative map iteration orders into explored choices.
var MapOrderChoices = true

// ---------------------------------------------------------------- random ids

// RandIntn returns successive distinct values (assumption A3: random ids do not collide).
func RandIntn(n int) int {
	w := live()
	if w == nil {
		return 0
	}
	w.randCtr++
	v := 1000 + w.randCtr
	w.hashEvent(w.cur, KRand, w.namedObj("\x00rand"), uint64(v))
	if n > 0 && v >= n {
		v = v % n
	}
	return v
}
