// Package vsched is a cooperative, fully controlled scheduler plus a
// deviation-bounded stateless explorer. It is injected into the hollywood module as a
// virtual package (go build -overlay); the rewritten repository sources and the harness
// share this one instance.
//
// Exactly one controlled thread runs at any time. A thread hands the baton back at every
// scheduling point (before each synchronisation operation) and when it ends.
package vsched

import (
	"fmt"
	"runtime"
	"sort"
	"strings"
	"sync"
)

type Kind uint8

const (
	KNone Kind = iota
	KStart
	KLock
	KRLock
	KUnlock
	KRUnlock
	KLoad
	KStore // any read-modify-write / store
	KSend
	KRecv
	KClose
	KSelect
	KSleep
	KWgAdd
	KWgWait
	KChoose
	KYield
	KQuiesce
	KSettle
	KTimer
	KTouch
	KRand
	KMapOrder
	KCtxCancel
	KLockAnn // a writer of an RWMutex announces itself: from here on new readers wait (sync.RWMutex is writer-preferring)
)

var kindNames = [...]string{"none", "start", "lock", "rlock", "unlock", "runlock", "load", "store", "send", "recv", "close",
	"select", "sleep", "wgadd", "wgwait", "choose", "yield", "quiesce", "settle", "timer", "touch", "rand", "maporder", "ctxcancel", "lockann"}

func (k Kind) String() string { return kindNames[k] }

// obj is the scheduler-side state of one synchronisation object.
type obj struct {
	oid   uint64 // canonical id
	wHash uint64 // Merkle hash of last write event
	rSum  uint64 // order-independent sum of read events since last write
	wvc   VC
	rvc   VC
}

// VC is a vector clock indexed by dense thread id.
type VC []int32

func (a VC) join(b VC) VC {
	if len(b) > len(a) {
		n := make(VC, len(b))
		copy(n, a)
		a = n
	}
	for i, v := range b {
		if v > a[i] {
			a[i] = v
		}
	}
	return a
}

func (a VC) clone() VC { n := make(VC, len(a)); copy(n, a); return n }

// Leq reports a <= b pointwise (a happens-before-or-equals b).
func (a VC) Leq(b VC) bool {
	for i, v := range a {
		if v == 0 {
			continue
		}
		if i >= len(b) || v > b[i] {
			return false
		}
	}
	return true
}

type selCase struct {
	ch   *chanState
	send bool
}

type pend struct {
	kind     Kind
	o        *obj
	mu       *Mutex
	rw       *RWMutex
	wg       *WaitGroup
	ch       *chanState
	sel      []selCase
	selDef   bool
	deadline int64
	val      any
	taken    bool
	n        int
}

type Thread struct {
	id      int
	tid     uint64
	name    string
	wake    chan int
	p       pend
	done    bool
	started bool
	vc      VC
	nev     uint64
	lastEv  uint64
	nspawn  uint64
}

// ID returns the dense (spawn order) id of a thread.
func (t *Thread) ID() int { return t.id }

type timer struct {
	id       int
	tid      uint64
	deadline int64
	fire     func(w *World)
	stopped  bool
	fired    bool
	daemon   bool // periodic: only fires on Advance
	period   int64
}

// Point describes one recorded choice point of an execution.
type Point struct {
	N          int    // number of alternatives
	Chosen     int    // alternative taken
	Cost       int    // deviation cost of alternative i>0 (0 or 1); alternative 0 is always free
	CostBefore int    // deviations accumulated before this point
	Key        uint64 // canonical state key before the choice
	Sig        uint64 // signature for replay validation
	Desc       string // only filled when tracing
}

type Blocked struct {
	Thread int
	Name   string
	Op     string
}

// Result is what one execution produced (scheduler's view).
type Result struct {
	Choices   []int
	Points    []Point
	Steps     int
	Blocked   []Blocked
	Diverged  bool     // step horizon hit
	Panics    []string // panics that escaped a controlled thread
	ReplayErr string   // non-empty: the prefix could not be replayed (harness/infrastructure error)
	Trace     []string // filled when tracing
	Now       int64
}

type World struct {
	threads    []*Thread
	cur        *Thread
	prefix     []int
	sigs       []uint64
	points     []Point
	nstep      int
	horizon    int
	cost       int
	now        int64
	timers     []*timer
	chans      map[uintptr]*chanState
	objs       map[uintptr]*obj
	named      map[string]*obj
	finished   chan struct{}
	dead       bool
	aborted    bool
	res        *Result
	hash       uint64
	wg         sync.WaitGroup
	trace      bool
	randCtr    int
	ended      bool
	setup      bool
	enabledBuf []cand
	costOne    []bool
	detSched   bool
}

// W is the current world; nil outside executions.
var W *World

type cand struct {
	t     *Thread
	tm    *timer
	class int // 0 real, 1 timer-class, 2 quiesce
}

const killSig = 1

func mix(a, b uint64) uint64 {
	x := a*0x9E3779B97F4A7C15 ^ (b + 0x7F4A7C15F39CC060 + (a << 6) + (a >> 2))
	x ^= x >> 29
	x *= 0xBF58476D1CE4E5B9
	x ^= x >> 32
	return x
}

func hashStr(s string) uint64 {
	h := uint64(14695981039346656037)
	for i := 0; i < len(s); i++ {
		h ^= uint64(s[i])
		h *= 1099511628211
	}
	return h
}

func newWorld(prefix []int, sigs []uint64, horizon int, trace bool) *World {
	return &World{
		prefix:   prefix,
		sigs:     sigs,
		horizon:  horizon,
		chans:    make(map[uintptr]*chanState),
		objs:     make(map[uintptr]*obj),
		named:    make(map[string]*obj),
		finished: make(chan struct{}, 1),
		res:      &Result{},
		trace:    trace,
	}
}

func (w *World) spawn(parent *Thread, name string, f func()) *Thread {
	t := &Thread{id: len(w.threads), name: name, wake: make(chan int, 1)}
	if parent == nil {
		t.tid = 1
	} else {
		parent.nspawn++
		t.tid = mix(parent.tid, parent.nspawn)
		t.vc = parent.vc.clone()
		parent.vc[parent.id]++                       // what the parent does after the spawn is not ordered before the child
		t.lastEv = mix(parent.lastEv, parent.nspawn) // child's history hangs off the parent's
	}
	if len(t.vc) <= t.id {
		n := make(VC, t.id+1)
		copy(n, t.vc)
		t.vc = n
	}
	t.vc[t.id] = 1 // a thread's own epoch starts at 1: 0 means "nothing known" in Leq
	t.p.kind = KStart
	w.threads = append(w.threads, t)
	w.wg.Add(1)
	go func() {
		defer w.wg.Done()
		if v := <-t.wake; v == killSig {
			return
		}
		normal := false
		defer func() {
			if w.dead {
				return
			}
			if !normal {
				r := recover()
				msg := fmt.Sprintf("thread %d (%s): %v", t.id, t.name, r)
				if w.trace {
					buf := make([]byte, 4096)
					buf = buf[:runtime.Stack(buf, false)]
					msg += "\n" + string(buf)
				}
				w.res.Panics = append(w.res.Panics, msg)
				w.aborted = true
			}
			t.done = true
			w.schedule(t, true)
		}()
		f()
		normal = true
	}()
	return t
}

func (t *Thread) park() {
	if v := <-t.wake; v == killSig {
		runtime.Goexit()
	}
}

// event records that thread t executed an operation on o. write=true orders it against
// everything earlier on o; write=false only against earlier writes.
//
// Vector clocks follow the usual release/acquire discipline of happens-before race
// detectors: an operation first acquires (joins the object's clock), then publishes the
// thread's clock on the object, and only then advances the thread's own component. Plain
// code that runs after the operation therefore carries an epoch that nobody has acquired
// yet: it is ordered before another thread's code only if this thread performs a further
// release which that thread acquires. Clock() values taken before/after a call can so be
// compared with Leq to decide "the whole call happened-before ...".
func (w *World) event(t *Thread, k Kind, o *obj, write bool, result uint64) {
	t.nev++
	defer func() { t.vc[t.id]++ }()
	var eh uint64
	if o != nil {
		if write {
			eh = mix(mix(mix(t.tid, t.nev), mix(uint64(k), o.oid)), mix(mix(t.lastEv, o.wHash), mix(o.rSum, result)))
			t.vc = t.vc.join(o.wvc)
			t.vc = t.vc.join(o.rvc)
			o.wvc = t.vc.clone()
			o.rvc = o.rvc[:0]
			o.wHash = eh
			o.rSum = 0
		} else {
			eh = mix(mix(mix(t.tid, t.nev), mix(uint64(k), o.oid)), mix(mix(t.lastEv, o.wHash), result))
			t.vc = t.vc.join(o.wvc)
			o.rvc = o.rvc.join(t.vc)
			o.rSum += eh
		}
	} else {
		eh = mix(mix(t.tid, t.nev), mix(mix(uint64(k), t.lastEv), result))
	}
	t.lastEv = eh
	w.hash += eh
	if w.trace {
		w.res.Trace = append(w.res.Trace, fmt.Sprintf("t%d %s res=%d", t.id, k, result))
	}
}

// hashEvent records an operation on o in the state hash only: it orders the operation
// against earlier ones on o for pruning (two executions that differ in the order of such
// operations get different state keys) but creates NO happens-before edge in the vector
// clocks the oracles read. Used for harness-side observers (shared logs) and for the random
// id counter, which are not synchronisation of the program under test.
func (w *World) hashEvent(t *Thread, k Kind, o *obj, result uint64) {
	t.nev++
	eh := mix(mix(mix(t.tid, t.nev), mix(uint64(k), o.oid)), mix(mix(t.lastEv, o.wHash), mix(o.rSum, result)))
	o.wHash = eh
	o.rSum = 0
	t.lastEv = eh
	w.hash += eh
	if w.trace {
		w.res.Trace = append(w.res.Trace, fmt.Sprintf("t%d %s res=%d", t.id, k, result))
	}
}

func (w *World) newObj(t *Thread) *obj {
	return &obj{oid: mix(t.tid, t.nev+0x1000000)}
}

func (w *World) objAt(p uintptr) *obj {
	o := w.objs[p]
	if o == nil {
		o = w.newObj(w.cur)
		w.objs[p] = o
	}
	return o
}

func (w *World) namedObj(key string) *obj {
	o := w.named[key]
	if o == nil {
		o = &obj{oid: hashStr(key)}
		w.named[key] = o
	}
	return o
}

func (w *World) enabled(t *Thread) (bool, int) {
	p := &t.p
	switch p.kind {
	case KNone:
		return false, 0
	case KLock:
		if p.rw != nil {
			return p.rw.r == 0, 0
		}
		return !p.mu.locked, 0
	case KLockAnn:
		return !p.rw.ann, 0
	case KRLock:
		return !p.rw.ann, 0
	case KSend:
		c := p.ch
		if c == nil {
			return false, 0
		}
		if c.closed || p.taken {
			return true, 0
		}
		return len(c.q) < c.cap, 0
	case KRecv:
		return w.recvReady(p.ch), 0
	case KSelect:
		if p.selDef {
			return true, 0
		}
		for _, sc := range p.sel {
			if sc.send {
				if w.sendReady(sc.ch) {
					return true, 0
				}
			} else if w.recvReady(sc.ch) {
				return true, 0
			}
		}
		return false, 0
	case KSleep:
		return true, 1
	case KWgWait:
		return p.wg.n == 0, 0
	case KQuiesce:
		return true, 2
	case KSettle:
		return true, 3
	}
	return true, 0
}

func (w *World) recvReady(c *chanState) bool {
	if c == nil {
		return false
	}
	if len(c.q) > 0 || c.closed {
		return true
	}
	if c.cap == 0 {
		for _, t := range w.threads {
			if !t.done && t.p.kind == KSend && t.p.ch == c && !t.p.taken {
				return true
			}
		}
	}
	return false
}

func (w *World) sendReady(c *chanState) bool {
	if c == nil {
		return false
	}
	if c.closed {
		return true
	}
	if c.cap == 0 {
		panic("vsched: select with a send case on an unbuffered channel is not supported")
	}
	return len(c.q) < c.cap
}

// pick decides what runs next. It returns (thread, timer, end).
func (w *World) pick(me *Thread) (*Thread, *timer, bool) {
	if w.aborted {
		return nil, nil, true
	}
	w.nstep++
	if w.nstep > w.horizon {
		w.res.Diverged = true
		return nil, nil, true
	}
	cands := w.enabledBuf[:0]
	var quiesce, settle *Thread
	// class 0: real threads, running first
	if me != nil && !me.done {
		if ok, cl := w.enabled(me); ok && cl == 0 {
			cands = append(cands, cand{t: me})
		}
	}
	runningEnabled := len(cands) == 1
	minDL := int64(-1)
	for _, t := range w.threads {
		if t.done {
			continue
		}
		ok, cl := w.enabled(t)
		if !ok {
			continue
		}
		switch cl {
		case 0:
			if t != me {
				cands = append(cands, cand{t: t})
			}
		case 1:
			if minDL < 0 || t.p.deadline < minDL {
				minDL = t.p.deadline
			}
		case 2:
			if quiesce == nil {
				quiesce = t
			}
		case 3:
			if settle == nil {
				settle = t
			}
		}
	}
	nreal := len(cands)
	if nreal == 0 && settle != nil {
		// no real thread can run: a settled thread goes first, before any timer
		w.enabledBuf = append(cands, cand{t: settle, class: 3})
		return settle, nil, false
	}
	for _, tm := range w.timers {
		if tm.stopped || tm.fired || tm.daemon {
			continue
		}
		if minDL < 0 || tm.deadline < minDL {
			minDL = tm.deadline
		}
	}
	if minDL >= 0 {
		for _, t := range w.threads {
			if !t.done && t.p.kind == KSleep && t.p.deadline == minDL {
				cands = append(cands, cand{t: t, class: 1})
			}
		}
		for _, tm := range w.timers {
			if !tm.stopped && !tm.fired && !tm.daemon && tm.deadline == minDL {
				cands = append(cands, cand{tm: tm, class: 1})
			}
		}
	}
	if len(cands) == 0 && quiesce != nil {
		cands = append(cands, cand{t: quiesce, class: 2})
	}
	w.enabledBuf = cands
	n := len(cands)
	if n == 0 {
		return nil, nil, true
	}
	idx := 0
	if n > 1 && !w.setup && !w.detSched {
		// cost of alternative i>0
		costs := w.costOne[:0]
		for i, c := range cands {
			one := false
			if i > 0 {
				if c.class == 0 {
					one = runningEnabled
				} else {
					one = nreal > 0
				}
			}
			costs = append(costs, one)
		}
		w.costOne = costs
		idx = w.choicePoint(n, func(i int) int {
			if costs[i] {
				return 1
			}
			return 0
		}, func() uint64 {
			s := uint64(n)
			for _, c := range cands {
				if c.t != nil {
					s = mix(s, mix(c.t.tid, uint64(c.t.p.kind)))
				} else {
					s = mix(s, c.tm.tid)
				}
			}
			return s
		}, me)
		if idx < 0 {
			return nil, nil, true
		}
	}
	c := cands[idx]
	if c.tm != nil {
		return nil, c.tm, false
	}
	return c.t, nil, false
}

// choicePoint records a choice among n alternatives and returns the one to take.
func (w *World) choicePoint(n int, costOf func(int) int, sigOf func() uint64, running *Thread) int {
	k := len(w.points)
	idx := 0
	sig := sigOf()
	if k < len(w.prefix) {
		idx = w.prefix[k]
		if idx < 0 || idx >= n {
			w.res.ReplayErr = fmt.Sprintf("REPLAY-DIVERGENCE: choice %d = %d out of range (n=%d)", k, idx, n)
			w.aborted = true
			return -1
		}
		if k < len(w.sigs) && w.sigs[k] != sig {
			w.res.ReplayErr = fmt.Sprintf("REPLAY-DIVERGENCE: choice point %d has a different shape than recorded", k)
			w.aborted = true
			return -1
		}
	}
	var rt uint64
	if running != nil && !running.done {
		rt = running.tid
	}
	pt := Point{N: n, Chosen: idx, CostBefore: w.cost, Sig: sig, Key: mix(mix(w.hash, uint64(w.now)), mix(rt, sig))}
	// per-alternative cost: alternatives share one cost flag pattern; store the max for i>0
	// (all i>0 of class 0 share the same cost; timer-class alternatives may differ) - keep exact per point via costs closure at expansion time
	pt.Cost = 0
	for i := 1; i < n; i++ {
		if costOf(i) > 0 {
			pt.Cost |= 1 << uint(i)
		}
	}
	if w.trace {
		pt.Desc = w.describe()
	}
	w.cost += costOf(idx)
	w.points = append(w.points, pt)
	return idx
}

func (w *World) describe() string {
	var sb strings.Builder
	for i, c := range w.enabledBuf {
		if i > 0 {
			sb.WriteString(" | ")
		}
		if c.t != nil {
			fmt.Fprintf(&sb, "t%d:%s:%s", c.t.id, c.t.name, c.t.p.kind)
		} else {
			fmt.Fprintf(&sb, "timer%d@%d", c.tm.id, c.tm.deadline)
		}
	}
	return sb.String()
}

// schedule is run by the goroutine of thread me (which holds the baton) whenever it
// reaches a point or exits.
func (w *World) schedule(me *Thread, exiting bool) {
	for {
		next, tm, end := w.pick(me)
		if end {
			w.finish()
			if !exiting {
				me.park()
			}
			return
		}
		if tm != nil {
			tm.fired = true
			if tm.deadline > w.now {
				w.now = tm.deadline
			}
			w.hash += mix(tm.tid, 0xfeed)
			if w.trace {
				w.res.Trace = append(w.res.Trace, fmt.Sprintf("timer%d fires @%d", tm.id, tm.deadline))
			}
			tm.fire(w)
			continue
		}
		if next.p.kind == KSleep {
			if next.p.deadline > w.now {
				w.now = next.p.deadline
			}
		}
		if next == me {
			return
		}
		w.cur = next
		next.wake <- 0
		if !exiting {
			me.park()
		}
		return
	}
}

func (w *World) finish() {
	if w.ended {
		return
	}
	w.ended = true
	for _, t := range w.threads {
		if !t.done {
			w.res.Blocked = append(w.res.Blocked, Blocked{Thread: t.id, Name: t.name, Op: t.p.kind.String()})
		}
	}
	w.finished <- struct{}{}
}

// point: the running thread announces its next operation and yields to the scheduler.
func (w *World) point() {
	t := w.cur
	w.schedule(t, false)
	t.p.kind = KNone
}

// RunOnce executes body once under the scheduler, replaying prefix and then taking the
// default alternative at every later choice point.
// Epoch counts executions: shims that keep state across calls (sync.Pool) drop it when the
// epoch changes, so that no object of an earlier execution leaks into the next one.
func Epoch() uint64 { return epochCtr }

var epochCtr uint64

func RunOnce(prefix []int, sigs []uint64, horizon int, trace bool, body func()) *Result {
	epochCtr++
	w := newWorld(prefix, sigs, horizon, trace)
	W = w
	t0 := w.spawn(nil, "main", body)
	w.cur = t0
	t0.wake <- 0
	<-w.finished
	w.dead = true
	for _, t := range w.threads {
		if !t.done {
			t.wake <- killSig
		}
	}
	w.wg.Wait()
	W = nil
	r := w.res
	r.Points = w.points
	r.Steps = w.nstep
	r.Now = w.now
	r.Choices = make([]int, len(w.points))
	for i, p := range w.points {
		r.Choices[i] = p.Chosen
	}
	sort.Slice(r.Blocked, func(i, j int) bool { return r.Blocked[i].Thread < r.Blocked[j].Thread })
	return r
}

func live() *World {
	w := W
	if w == nil || w.dead {
		return nil
	}
	return w
}

// Go starts f as a new controlled thread.
func Go(name string, f func()) {
	w := live()
	if w == nil {
		if W == nil {
			go f()
		}
		return
	}
	t := w.cur
	w.event(t, KStart, nil, false, t.nspawn+1)
	w.spawn(t, name, f)
}

// Yield is a plain scheduling point.
func Yield() {
	w := live()
	if w == nil {
		return
	}
	t := w.cur
	t.p = pend{kind: KYield}
	w.point()
}

// Choose is a harness data choice among n alternatives (all enumerated, cost 0).
func Choose(n int) int {
	return chooseCost(n, 0, KChoose)
}

// ChooseDev is a data choice whose non-default alternatives cost one deviation each.
func ChooseDev(n int) int {
	return chooseCost(n, 1, KChoose)
}

func chooseCost(n int, cost int, k Kind) int {
	w := live()
	if w == nil || n <= 1 || w.setup {
		return 0
	}
	t := w.cur
	w.nstep++
	idx := w.choicePoint(n, func(i int) int {
		if i == 0 {
			return 0
		}
		return cost
	}, func() uint64 { return mix(uint64(n), mix(uint64(k), t.tid)) }, t)
	if idx < 0 {
		// replay error: end the execution
		w.finish()
		t.park()
	}
	w.event(t, k, nil, false, uint64(idx))
	return idx
}

// Quiesce blocks the caller until no other thread is enabled and no timer is pending.
func Quiesce() {
	w := live()
	if w == nil {
		return
	}
	t := w.cur
	t.p = pend{kind: KQuiesce}
	w.point()
	// A quiesced thread has observed "everything else settled": order it after everything.
	for _, o := range w.threads {
		t.vc = t.vc.join(o.vc)
	}
	w.event(t, KQuiesce, w.namedObj("\x00quiesce"), true, 0)
}

// Settle blocks the caller until no other real thread is enabled; pending timers do not count
// (unlike Quiesce they are left pending). Used by harness threads that play the network: they
// deliver in-flight messages once everybody else is blocked, and only let timeouts fire when
// there is nothing left to deliver.
func Settle() {
	w := live()
	if w == nil {
		return
	}
	t := w.cur
	t.p = pend{kind: KSettle}
	w.point()
	for _, o := range w.threads {
		t.vc = t.vc.join(o.vc)
	}
	w.event(t, KSettle, w.namedObj("\x00quiesce"), true, 0)
}

// BeginSetup starts a deterministic setup phase: until EndSetup the scheduler always takes
// the default alternative and records no choice points (fixtures such as the engine, the
// monitor and subscriptions are built along one fixed schedule, so that the explored space
// is the scenario proper and not the fixture construction).
func BeginSetup() {
	if w := live(); w != nil {
		w.setup = true
	}
}

// EndSetup waits for quiescence (still in setup mode) and then switches exploration on.
func EndSetup() {
	w := live()
	if w == nil {
		return
	}
	Quiesce()
	w.setup = false
}

// DeterministicSchedule switches thread scheduling to the default order without recording
// choice points (one thread schedule per execution) while data choices (Choose) keep being
// enumerated: for properties that quantify over histories and inputs, not over schedules.
func DeterministicSchedule(on bool) {
	if w := live(); w != nil {
		w.detSched = on
	}
}

// Touch records an access to a named harness-side object (a shared log) without being a
// scheduling point. The order of touches becomes part of the state key used for pruning,
// but no happens-before edge is created: the oracles' vector clocks only contain the
// synchronisation of the program under test.
func Touch(key string) {
	w := live()
	if w == nil {
		return
	}
	w.hashEvent(w.cur, KTouch, w.namedObj(key), 0)
}

// Clock returns a copy of the running thread's vector clock.
func Clock() VC {
	w := live()
	if w == nil {
		return nil
	}
	return w.cur.vc.clone()
}

// Self returns the dense id of the running thread (-1 outside an execution).
func Self() int {
	w := live()
	if w == nil {
		return -1
	}
	return w.cur.id
}

// Name labels the running thread (used in deadlock reports).
func Name(s string) {
	if w := live(); w != nil {
		w.cur.name = s
	}
}

// Steps returns the number of scheduling steps so far.
func Steps() int {
	if w := live(); w != nil {
		return w.nstep
	}
	return 0
}
