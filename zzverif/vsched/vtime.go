package vsched

import (
	"context"
	"time"
)

// ---------------------------------------------------------------- virtual time

var epoch = time.Date(2024, 1, 1, 0, 0, 0, 0, time.UTC)

func Now() time.Time {
	w := live()
	if w == nil {
		return epoch
	}
	return epoch.Add(time.Duration(w.now))
}

// VNow returns virtual nanoseconds since the start of the execution.
func VNow() int64 {
	if w := live(); w != nil {
		return w.now
	}
	return 0
}

func Sleep(d time.Duration) {
	w := live()
	if w == nil {
		return
	}
	t := w.cur
	if d <= 0 {
		t.p = pend{kind: KYield}
		w.point()
		return
	}
	t.p = pend{kind: KSleep, deadline: w.now + int64(d)}
	w.point()
	w.event(t, KSleep, nil, false, uint64(w.now))
}

func (w *World) addTimer(d time.Duration, daemon bool, fire func(w *World)) *timer {
	t := w.cur
	t.nspawn++
	tm := &timer{id: len(w.timers), tid: mix(t.tid, t.nspawn), deadline: w.now + int64(d), fire: fire, daemon: daemon, period: int64(d)}
	w.timers = append(w.timers, tm)
	w.event(t, KTimer, nil, false, uint64(tm.deadline))
	return tm
}

type Ticker struct {
	C  <-chan time.Time
	c  chan time.Time
	tm *timer
}

// NewTicker returns a periodic ticker. Periodic tickers are daemon timers: they only fire
// when the harness calls Advance, otherwise executions would never go quiescent.
func NewTicker(d time.Duration) *Ticker {
	c := make(chan time.Time, 1)
	tk := &Ticker{C: c, c: c}
	w := live()
	if w == nil {
		return tk
	}
	tk.tm = w.addTimer(d, true, nil)
	tk.tm.fire = func(w *World) {
		cs := chanOfT(w, c)
		if len(cs.q) < cs.cap {
			cs.q = append(cs.q, epoch.Add(time.Duration(w.now)))
			cs.o.wHash = mix(cs.o.wHash, 0x71c4)
		}
	}
	return tk
}

func (t *Ticker) Stop() {
	if t.tm != nil {
		t.tm.stopped = true
	}
}

func (t *Ticker) Reset(d time.Duration) {}

// Advance moves virtual time forward by d and fires every periodic (daemon) ticker whose
// period has elapsed, once. It is an explicit event of a scenario's alphabet.
func Advance(d time.Duration) {
	w := live()
	if w == nil {
		return
	}
	t := w.cur
	t.p = pend{kind: KYield}
	w.point()
	w.now += int64(d)
	for _, tm := range w.timers {
		if tm.daemon && !tm.stopped && tm.deadline <= w.now {
			tm.deadline = w.now + tm.period
			tm.fire(w)
		}
	}
	w.event(t, KTimer, w.namedObj("\x00advance"), true, uint64(w.now))
}

type Timer struct {
	C    <-chan time.Time
	c    chan time.Time
	tm   *timer
	fire func(w *World)
}

func NewTimer(d time.Duration) *Timer {
	c := make(chan time.Time, 1)
	t := &Timer{C: c, c: c}
	w := live()
	if w == nil {
		return t
	}
	t.fire = func(w *World) {
		cs := chanOfT(w, c)
		if len(cs.q) < cs.cap {
			cs.q = append(cs.q, epoch.Add(time.Duration(w.now)))
			cs.o.wHash = mix(cs.o.wHash, 0x71c5)
		}
	}
	t.tm = w.addTimer(d, false, t.fire)
	return t
}

// Reset re-arms the timer. Like time.Timer.Reset under the pre-Go-1.23 timer semantics that the
// repository's go.mod selects, it does NOT drain the channel: a tick that was already
// delivered and not received stays there.
func (t *Timer) Reset(d time.Duration) bool {
	w := live()
	if w == nil || t.tm == nil {
		return false
	}
	was := !t.tm.stopped && !t.tm.fired
	t.tm.stopped = true
	t.tm = w.addTimer(d, false, t.fire)
	return was
}

func (t *Timer) Stop() bool {
	if t.tm == nil {
		return false
	}
	was := !t.tm.stopped && !t.tm.fired
	t.tm.stopped = true
	return was
}

func After(d time.Duration) <-chan time.Time { return NewTimer(d).C }

// AfterFunc is time.AfterFunc: when the timer fires, f runs on a thread of its own (a goroutine of
// the runtime's in the real thing). What f does is ordered after the AfterFunc call, and after nothing
// else the calling thread did later.
func AfterFunc(d time.Duration, f func()) *Timer {
	t := &Timer{}
	w := live()
	if w == nil {
		return t
	}
	cur := w.cur
	cur.nspawn++
	pseudo := &Thread{id: cur.id, tid: mix(cur.tid, cur.nspawn), vc: cur.vc.clone(), lastEv: cur.lastEv}
	cur.vc[cur.id]++
	t.fire = func(w *World) { w.spawn(pseudo, "afterfunc", f) }
	t.tm = w.addTimer(d, false, t.fire)
	return t
}

// ---------------------------------------------------------------- contexts

type vctx struct {
	parent   context.Context
	done     chan struct{}
	err      error
	children []*vctx
	deadline time.Time
	hasDL    bool
	tm       *timer
}

func (c *vctx) Deadline() (time.Time, bool) {
	if c.hasDL {
		return c.deadline, true
	}
	return c.parent.Deadline()
}
func (c *vctx) Done() <-chan struct{} { return c.done }
func (c *vctx) Err() error {
	return c.err
}
func (c *vctx) Value(k any) any { return c.parent.Value(k) }

func (c *vctx) cancel(w *World, t *Thread, err error) {
	if c.err != nil {
		return
	}
	c.err = err
	if c.tm != nil {
		c.tm.stopped = true
	}
	w.closeNoPoint(t, c.done)
	for _, ch := range c.children {
		ch.cancel(w, t, err)
	}
}

func newCtx(parent context.Context) *vctx {
	c := &vctx{parent: parent, done: make(chan struct{})}
	if p, ok := parent.(*vctx); ok {
		if p.err != nil {
			c.err = p.err
			if w := live(); w != nil {
				w.closeNoPoint(w.cur, c.done)
			}
		} else {
			p.children = append(p.children, c)
		}
	} else if parent.Done() != nil {
		if parent.Err() != nil {
			c.err = parent.Err()
			if w := live(); w != nil {
				w.closeNoPoint(w.cur, c.done)
			}
		}
		// a live, cancellable std context as parent is not modelled (never cancelled here)
	}
	return c
}

func WithCancel(parent context.Context) (context.Context, context.CancelFunc) {
	c := newCtx(parent)
	return c, func() {
		w := live()
		if w == nil {
			return
		}
		t := w.cur
		if c.err != nil {
			return
		}
		t.p = pend{kind: KCtxCancel}
		w.point()
		c.cancel(w, t, context.Canceled)
	}
}

func WithDeadline(parent context.Context, d time.Time) (context.Context, context.CancelFunc) {
	return WithTimeout(parent, d.Sub(Now()))
}

func WithTimeout(parent context.Context, d time.Duration) (context.Context, context.CancelFunc) {
	c := newCtx(parent)
	w := live()
	if w != nil {
		c.hasDL = true
		c.deadline = epoch.Add(time.Duration(w.now) + d)
		if c.err == nil {
			c.tm = w.addTimer(d, false, func(w *World) {
				c.cancel(w, nil, context.DeadlineExceeded)
			})
		}
	}
	return c, func() {
		w := live()
		if w == nil {
			return
		}
		t := w.cur
		if c.err != nil {
			return
		}
		t.p = pend{kind: KCtxCancel}
		w.point()
		c.cancel(w, t, context.Canceled)
	}
}
