package vsched

import (
	"time"
)

// Violation is one oracle failure in one execution.
type Violation struct {
	Signature string // stable identity: oracle clause + role of the failing object
	Detail    string
}

// Instance is one fresh copy of a scenario: Body runs as thread 0; Check is called after
// the execution ended and returns the oracle's findings. Outcome is a canonical rendering
// of what the oracle looked at (for distinct-outcome counting).
type Instance struct {
	Body    func()
	Check   func(r *Result) []Violation
	Outcome func() string
}

type Config struct {
	MaxBound        int // deviation bounds 0..MaxBound are iterated
	Horizon         int
	Deadline        time.Time // real time cap (zero = none)
	NoPrune         bool
	MaxExecs        int64 // per bound; 0 = unlimited
	StopOnViolation bool
}

type BoundStats struct {
	Bound      int
	Executions int64
	Steps      int64
	States     int64
	Pruned     int64
	Complete   bool // search at this bound finished (no cap hit)
	Saturated  bool // no execution was cut by the bound: this bound covers every schedule
}

type Witness struct {
	Signature string
	Detail    string
	Choices   []int
	Sigs      []uint64
	Bound     int
	Count     int64
}

type Report struct {
	Bounds        []BoundStats
	Executions    int64
	Steps         int64
	States        int64
	Outcomes      map[string]int64
	Nontrivial    map[string]bool // outcomes seen in executions with >=1 choice point
	Witnesses     map[string]*Witness
	InfraErr      string
	SampleChoices [][]int
	MaxPoints     int
}

// Unbounded as a deviation bound means "no bound".
const Unbounded = 99

type frame struct {
	choices []int
	sigs    []uint64
}

// Explore runs the iterative deviation-bounded DFS.
func Explore(cfg Config, mk func() Instance) *Report {
	rep := &Report{Outcomes: map[string]int64{}, Nontrivial: map[string]bool{}, Witnesses: map[string]*Witness{}}
	if cfg.Horizon == 0 {
		cfg.Horizon = 20000
	}
	// bounds 0,1,2,3 are iterated; a requested bound >= Unbounded then jumps straight to the
	// unbounded search (cost no longer matters there: a state is expanded once).
	var bounds []int
	for b := 0; b <= cfg.MaxBound && b <= 3; b++ {
		bounds = append(bounds, b)
	}
	if cfg.MaxBound >= Unbounded {
		bounds = append(bounds, Unbounded)
	} else {
		for b := 4; b <= cfg.MaxBound; b++ {
			bounds = append(bounds, b)
		}
	}
	for _, bound := range bounds {
		bs := BoundStats{Bound: bound, Complete: true, Saturated: true}
		seen := map[uint64]int8{}
		stack := []frame{{}}
		for len(stack) > 0 {
			if !cfg.Deadline.IsZero() && bs.Executions%64 == 0 && time.Now().After(cfg.Deadline) {
				bs.Complete = false
				break
			}
			if cfg.MaxExecs > 0 && bs.Executions >= cfg.MaxExecs {
				bs.Complete = false
				break
			}
			f := stack[len(stack)-1]
			stack = stack[:len(stack)-1]
			inst := mk()
			r := RunOnce(f.choices, f.sigs, cfg.Horizon, false, inst.Body)
			if r.ReplayErr != "" {
				rep.InfraErr = r.ReplayErr
				return rep
			}
			bs.Executions++
			bs.Steps += int64(r.Steps)
			if len(r.Points) > rep.MaxPoints {
				rep.MaxPoints = len(r.Points)
			}
			if len(rep.SampleChoices) < 4 && len(r.Points) > 0 {
				rep.SampleChoices = append(rep.SampleChoices, append([]int{}, r.Choices...))
			}
			vs := inst.Check(r)
			if inst.Outcome != nil {
				o := inst.Outcome()
				rep.Outcomes[o]++
				if len(r.Points) > 0 {
					rep.Nontrivial[o] = true
				}
			}
			for _, v := range vs {
				wt := rep.Witnesses[v.Signature]
				if wt == nil {
					sg := make([]uint64, len(r.Points))
					for i, p := range r.Points {
						sg[i] = p.Sig
					}
					wt = &Witness{Signature: v.Signature, Detail: v.Detail, Choices: append([]int{}, r.Choices...), Sigs: sg, Bound: bound}
					rep.Witnesses[v.Signature] = wt
				}
				wt.Count++
			}
			if len(vs) > 0 && cfg.StopOnViolation {
				bs.Complete = false
				rep.Bounds = append(rep.Bounds, bs)
				rep.finish()
				return rep
			}
			// expand children: alternatives at every point after the prefix
			for i := len(r.Points) - 1; i >= len(f.choices); i-- {
				p := r.Points[i]
				if p.N <= 1 {
					continue
				}
				if !cfg.NoPrune {
					cb := p.CostBefore
					if bound >= Unbounded {
						cb = 0
					}
					if c, ok := seen[p.Key]; ok && int(c) <= cb {
						bs.Pruned++
						continue
					}
					seen[p.Key] = int8(cb)
				}
				for alt := p.N - 1; alt >= 1; alt-- {
					c := (p.Cost >> uint(alt)) & 1
					if p.CostBefore+c > bound {
						bs.Saturated = false
						continue
					}
					ch := make([]int, i+1)
					copy(ch, r.Choices[:i])
					ch[i] = alt
					sg := make([]uint64, i+1)
					for j := 0; j <= i; j++ {
						sg[j] = r.Points[j].Sig
					}
					stack = append(stack, frame{choices: ch, sigs: sg})
				}
			}
		}
		bs.States = int64(len(seen))
		rep.Bounds = append(rep.Bounds, bs)
		if !bs.Complete {
			break
		}
		if bs.Saturated {
			break // a larger bound would explore exactly the same executions
		}
	}
	rep.finish()
	return rep
}

func (rep *Report) finish() {
	for _, b := range rep.Bounds {
		rep.Executions += b.Executions
		rep.Steps += b.Steps
		if b.States > rep.States {
			rep.States = b.States
		}
	}
}

// Replay runs one recorded schedule with tracing.
func Replay(choices []int, sigs []uint64, horizon int, inst Instance) (*Result, []Violation) {
	if horizon == 0 {
		horizon = 20000
	}
	r := RunOnce(choices, sigs, horizon, true, inst.Body)
	if r.ReplayErr != "" {
		return r, nil
	}
	return r, inst.Check(r)
}
