#!/usr/bin/env python3
import json, jsonschema, glob, sys
m=json.load(open('/verif/MANIFEST.json')); s=json.load(open('/root/.vp/MANIFEST.schema.json')); jsonschema.validate(m,s); print("manifest ok")
es=json.load(open('/root/.vp/EVIDENCE.schema.json'))
for f in sorted(glob.glob('/verif/evidence/*.json')):
    jsonschema.validate(json.load(open(f)), es); print("ok", f)
