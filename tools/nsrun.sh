#!/bin/sh
# run a command in a private network namespace (isolates mDNS / loopback ports from other jobs on this box)
exec unshare -n sh -c 'ip link set lo up; ip link set lo multicast on; ip route add 224.0.0.0/4 dev lo 2>/dev/null; exec "$@"' sh "$@"
