#!/usr/bin/env python3
"""Regenerates /verif/MANIFEST.json from the table below (run after adding a check)."""
import json, os

VERIF = os.path.dirname(os.path.dirname(os.path.abspath(__file__)))

S = "stateless model checking of the real code: controlled cooperative scheduler + iterative deviation-bounded DFS with happens-before state caching"
H = "explicit-state search over operation histories, each transition a call of the real handler/API under the controlled scheduler, states canonicalised and deduplicated, compared with a reference model"
I = "bounded exhaustive input enumeration through the real encode/decode path against a reference model (no scheduler needed: the path is sequential)"

NOTE = ("Trusted base: the vsched scheduler/explorer and the vinstr source rewriter (imports of sync, sync/atomic, time, context, runtime, math/rand redirected; "
        "go/chan/select/map-range rewritten one-for-one), Go compiler. Assumes SC atomics and data-race freedom on plain memory, distinct random ids; "
        "bounded thread/message/history sizes as listed in the evidence file.")

CLAIMED = {
    # id: (technique, level text, design ref)
    "C01": (S, "Exactly-once / content / sender / happens-before order of delivery through the real Inbox+RingBuffer (1-3 sender threads, 2-5 messages, initial ring sizes 1-4 so that the ring grows while wrapped; a build with messageBatchSize scaled to 2 so that backlogs split into batches) and through the public engine API (goroutine senders, an actor sending from Receive, a cross-thread channel edge); deviation bound 2-3, unbounded where the pruned search finishes. Send a happened-before send b is decided from the scheduler's vector clocks over the program's real synchronisation (a.end <= b.start).", "§5 C01"),
    "C02": (S, "At most one worker inside Invoke/Receive per actor and each invocation happens-after the previous one (vector clocks over the real synchronisation edges only), under all schedules up to deviation bound 3 with receivers that yield inside Receive; inbox level (2-3 senders racing with Start) and engine level (spawner, senders, Poison/Stop caller, a panic that restarts the actor on the worker goroutine).", "§5 C02"),
    "C03": (S, "All interleavings of Send (push, try-schedule), Start and the worker's last empty pop / running->idle CAS / Len re-check on the real Inbox+RingBuffer: unbounded (all schedules) for up to 3 threads, deviation bound 3 beyond; every quiescent end state must be idle with an empty ring and every pushed message invoked.", "§5 C03"),
    "C04": (S + "; histories enumerated exhaustively as data choices", "Per-incarnation lifecycle protocol (Initialized, Started, user*, one final Stopped, nothing afterwards, Spawn returns after Started, sends from registration on are retained) for Spawn racing with senders and a Poison/Stop caller (deviation bound 2-3) and for every history over {message, panics-once, always-panics, Poison, Stop} up to length 3-4 issued as one batch and by a racing driver, MaxRestarts 0-2 (deviation bound 1-2).", "§5 C04"),
    "C05": (S + "; crash points and fault sequences enumerated exhaustively as data choices", "Every history over {ok message, panics-once, always-panics} up to length 3 (quick) / 4 (thorough) within the restart budget, issued as one batch and by a racing driver thread, restart delay 0 and >0 (virtual time), deviation bound 1 (quick) / 2 (thorough): no escaped panic, Stopped to the failed incarnation, one ActorRestartedEvent per failure with the right count, fresh incarnation, queued messages redelivered in order exactly once ahead of later sends, failing message not redelivered, bystander unaffected.", "§5 C05"),
    "C06": (S + "; placements of the budget-exhausting panic enumerated exhaustively", "MaxRestarts 0..2, every history over {message, always-panics} with exactly MaxRestarts+1 failures (first batch, replay of the restart buffer), as one batch and from a racing driver: exactly MaxRestarts ActorRestartedEvents then one ActorMaxRestartsExceededEvent, actor unregistered, one final Stopped, later send dead-letters, no panic escapes, bystander unaffected; deviation bound 1-2.", "§5 C06"),
    "C07": (S + "; histories enumerated exhaustively as data choices", "Every history over {message, Poison, Stop} with one stop request (length <=4) and with one crash in front of the request or behind a non-graceful Stop, as one batch and from a racing driver, the driver waiting on the returned context and then probing: context done only after Stopped + unregistration, probe dead-letters, messages sent before a Poison are handled, pills never visible; deviation bound 1-2. Trigger families for the open findings D3 (second stop request) and D4 (panic while draining behind a graceful pill).", "§5 C07"),
    "C08": (S, "Tree shapes 1x1, 1x2, 2x1 (thorough: 1x3, 2x2), root stopped by Poison or Stop, preceded by a leaf stopping itself while Children() is queried, a leaf or the root crashing once: every descendant handles Stopped and is unregistered before its ancestor's final Stopped and before the root's context is done; Parent(), Children() checked; deviation bound 1-2. Trigger families for the open findings (a child terminated by someone else while the parent shuts down).", "§5 C08"),
    "C09": (S + " + exhaustive enumeration of targets x messages x senders x subscriber populations", "Targets {nil, never spawned, stopped, foreign address} x messages {int, string, pointer} x sender {nil, P} x subscriber populations {one monitor, two monitors, monitor + a subscriber that stopped without unsubscribing}, 1-2 sender threads: exactly one DeadLetterEvent / EngineRemoteMissingEvent per send at every live monitor with the original fields, none for nil, no panic, no blocked sender, quiescence below the step horizon (finiteness); deviation bound 1-3.", "§5 C09"),
    "C10": (S + " + " + H, "2-3 threads spawning the same id concurrently (plus another id, an incumbent with pending messages, duplicate SpawnChild): exactly one Producer runs, one ActorDuplicateIdEvent per loser, incumbent undisturbed, GetPID non-nil once any Spawn returned (deviation bound 3, unbounded in the thorough tier); all operation sequences of length <=4 (thorough 5) over {spawn a, spawn b, stop+wait a, poison+wait a, send a, getpid a} against a map[id]incarnation model.", "§5 C10"),
    "C11": (S + " with virtual time", "1-3 concurrent requesters to one or two echo actors replying 0-3 times, before or after the (virtual) timeout, plus late replies: Result returns the reply to that very request or an error no earlier than the timeout, response PID unregistered afterwards, late reply dead-letters exactly once, responder never left blocked; timer-vs-thread races are scheduler choices; deviation bound 2-3.", "§5 C11"),
    "C12": (H + " + " + S, "All sequences of length <=4 (thorough 5) over {sub, unsub} x {pa, pb, pa' (equal value, distinct object)} + broadcast against a set-of-PID-values model; 2 concurrent broadcasters x 2 events (exactly once, per-broadcaster order; deviation bound 2-3); the engine's own lifecycle events (initialized, started, restarted, duplicate id, dead letter, stopped) exactly once per occurrence.", "§5 C12"),
    "C13": (S + "; delivery paths enumerated exhaustively", "Middleware chains of length 1-3 with recording middlewares on every path a message can reach a receiver (spawn, user message, stop, poison, crash + restart, replay of the restart buffer, max restarts), one batch and racing driver: each middleware entered exactly once per delivery in configured order, receiver innermost, same message/sender inside the chain; deviation bound 1-2.", "§5 C13"),
    "C14": (H + " (sequential part: BFS keyed on ring geometry) + " + S + " (concurrent part, brute-force linearizability check of every explored history against the FIFO model)", "Sequential: every operation sequence over {Push, Pop, PopN(1,2,3,1<<20), Len} up to depth 20 (quick) / 34 (thorough) from initial sizes 1..4 with state key (mod, head, tail, len), each return value compared with a slice model. Concurrent: 2 threads x 1-2 operations and 3 threads x 1 operation from 8 start states (empty, full, wrapped, about to grow), all schedules (unbounded search finished); every call/return history checked for linearizability.", "§5 C14"),
    "C15": (I, "All outbound batches of length 1-2 over 3 targets x 6 senders (nil, S1, S2, an equal-valued distinct PID object, a pair differing only in the address/id split) x 7 payloads (three registered types incl. an empty message, a proto value whose Marshal fails, a non-proto value), all batches of length 3 over reduced pools (thorough: full pools, 2.0M batches) and of length 4 over tiny pools, pushed through the real streamWriter.Invoke, generated drpc wrappers, production MarshalVT/UnmarshalVT and streamReader.Receive into recording Processers: same count, order, target, type, payload (proto.Equal) and sender (nil iff sent without); an unserialisable message is dropped alone, nothing delivered in its place, no panic.", "§5 C15"),
    "C16": (I, "Structured envelopes: 4 type-name tables x 3 target tables x 3 sender tables x 0-2 messages whose three indices range over {-1,0,1,2,MaxInt32,MinInt32} (two messages: {-1,0,1} quick, {-1,0,1,MaxInt32} thorough) and data over {valid, garbage, empty}, encoded with the real MarshalVT; byte level: every proper prefix, single-byte deletion and single-byte substitution of 7 seed encodings. Everything UnmarshalVT accepts goes through streamReader.Receive: no panic, deliveries only for messages whose own indices are valid and only to the target/type/sender they name, good messages in front of a bad one are delivered, the node still works afterwards.", "§5 C16"),
    "C18": (H, "Real Agent behind the real Cluster API (stub provider via Config.WithProvider), deterministic thread schedule, quiescence after each step: all sequences of <=4 (thorough 5) membership snapshots out of 16 (every subset of a 4-member universe containing the observing node, lists with duplicate entries, another id on a member's host, a member's id on another host; fresh Member objects each time); after every snapshot Members(), the MemberJoinEvent/MemberLeaveEvent multiset since the previous snapshot and HasKind for 4 kinds are compared with a set model.", "§5 C18"),
    "C19": (H + "; the arrival order of each operation's notifications is an enumerated data choice", "2 (thorough: 3) real engines with real cluster agents in one world, outbound messages captured by a pool Remoter and delivered in every order after each operation (operations run on their own thread so that request/response round trips can complete while they block; timeouts are virtual and fire only when nothing is left to deliver): all histories of <=3 (thorough 4) enabled operations over join / leave / activate (3 kinds, 2 ids, first capable or fixed member) / deactivate / cluster spawn; reference model = membership + global id->host map; Activate result, uniqueness, placement, GetActiveByID/ByKind on every member, registries, purge on leave, topology transfer on join.", "§5 C19"),
    "C20": (H, "Real SelfManaged provider (zeroconf replaced by an inert shim, member-ping ticker fired explicitly, log.Fatal recorded) reporting to a stub agent, outbound messages captured by a pool Remoter: all sequences of <=4 (thorough 5) events out of 12 (handshake from 3 peers, 4 member lists incl. duplicates and self, unreachable report for each peer address and for an address that never was a member, ticker); after each event the reference member set is compared with the lists reported to the agent, the handshake reply and its addressee, the ping targets, and no ActorRestartedEvent for the provider.", "§5 C20"),
    "C17": (S + " on an in-memory transport model of TCP+drpc, bound to the implementation by a conformance replay of the same scenarios over real loopback TCP; the Start/Stop clause is decided by exhaustive enumeration of call sequences on the real listener", "Controlled leg: two real engines with the real remote.Remote, streamRouter, streamWriter (dial retry loop with virtual back-off), streamReader, serializer and generated drpc glue in one scheduler world; only net / drpcconn / drpcserver are replaced by an in-memory FIFO transport. 1-3 sender threads x 1-3 messages to 1-2 actors on the peer (with/without sender), an actor sender, a request/response pair, dial-failure sequences down^j up for j in {0,1,2,3,6}: exactly-once, right target and sender, per-sender order, reply reaches the requester, one RemoteUnreachableEvent per failed connection attempt, conservation (delivered xor dead-lettered), fresh attempt after the episode; deviation bound 1-2. Conformance leg: every scenario variant is re-run on the uninstrumented code over real TCP and its canonical observation record must be one the controlled leg produced; all Start/Stop/Stop+Wait/dial-probe sequences of length <=4 on a real listener.", "§5 C17"),
}

# coverage added after the first build (seed rounds 2 and 3), appended to the level text
ADDED = {
    "C01": " Also: senders that start during a restart (restart-late-senders).",
    "C02": " Also: a build with defaultThroughput scaled to 3, a busy worker that uses up its quota while senders keep sending (hand-off to the successor worker); free-running race-detector pass.",
    "C03": " Also: an actor whose first start fails in Initialized/Started on the spawning goroutine (the inbox is opened by the start that succeeds); the throughput hand-off (defaultThroughput scaled to 3).",
    "C04": " Also: receivers that panic in their Stopped handler; a middleware in front of crashing histories.",
    "C05": " Also: lifecycle handlers that panic; a receiver that panics again while it is told Stopped after a crash (D26); panics with *actor.InternalError (both readings of its budget exemption accepted); middleware in front of the restart.",
    "C06": " Also: the budget-exhausting panic followed by a panic in the final Stopped handler; InternalError panics around the exhaustion; a parent that re-spawns its fixed-id child in every Started and takes it down when it exceeds its budget.",
    "C07": " Also: a watcher thread per stop context that records, the moment the context is done, whether the target is still registered / has handled Stopped; a stop request issued by a second party while the target is inside its Stopped handler; two stop requests; crashes behind a graceful pill; a pill behind the budget-exhausting panic.",
    "C08": " Also: a leaf that panics inside its final Stopped handler, a tree spawned WithContext(cancelled), a shutdown that reaches a child already inside its Stopped handler; the oracle compares the moment each Stopped handler RETURNED with the parent's Stopped; a child that dies during its own start.",
    "C09": " Also: a thread that spawns and poisons an unrelated actor while the sends fail (with sync.RWMutex modelled as writer-preferring: no sender may block), a monitor subscribed twice through equal but distinct PIDs, engines with a remote, a subscriber with a foreign address.",
    "C10": " Also: stop, wait for the context, spawn the same id again at once while 0-2 other pending stop requests are still being acknowledged; respawn racing the shutdown of an actor with children; free-running race-detector pass on the registry.",
    "C11": " Also: a second request to a silent actor right after a timed-out one (nothing stale may leak into it; sync.Pool modelled deterministically), replies racing the timeout.",
    "C12": " Also: a subscriber that dies between two broadcasts with others behind it in the set; an EngineRemoteMissingEvent (sender-less message to a foreign address) arrives once and leaves the subscriptions intact.",
    "C13": " Also: the InternalError restart path, the chain given as two WithMiddleware options, a second actor with a chain of its own spawned right afterwards.",
    "C14": " Also: full buffers as start states of the concurrent part (a PopN frees slots the next Push reuses without growing).",
    "C15": " Also: sender tables with the same id on different addresses, two batches over one connection.",
    "C16": " Also: envelopes addressed to the node's own stream writer for the sending peer (real streamWriter behind its real inbox, D27); unknown fields of every wire type incl. (nested, unclosed) groups and lengths up to 2^63-1 and overflowing, in front of, behind and inside a valid envelope; Envelope values with nil table entries handed to the reader directly; 2-3 concurrent inbound streams.",
    "C17": " Also: every message with a sender, the same id on two addresses alternating; a second peer; restart of the receiving node; the lifecycle sequences attempt the refused second Start with another engine and then check that the remote still serves the first one.",
    "C18": " The universe also has another id on an existing member's host and an existing id on another host (16 snapshots). Free-running race-detector pass on a real cluster node.",
    "C19": " Also: select functions that return an equal copy of the chosen member; kind-less members; activations present before a join. Free-running race-detector pass on a real cluster node.",
    "C20": " Also: every member list handed out (agent report, handshake reply) is re-read at the end of the history and must not have changed. Free-running race-detector pass on a real cluster node (handshakes and unreachable reports concurrently).",
}

NOT_YET = "check not built yet in this session (planned: see DESIGN.md §5); not claimed until it runs green on the unchanged tree"


def main():
    props = [json.loads(l) for l in open(os.path.join(VERIF, "properties.jsonl"))]
    checks, na = [], []
    for p in props:
        pid = p["id"]
        if pid in CLAIMED:
            tech, text, ref = CLAIMED[pid]
            text += ADDED.get(pid, "")
            checks.append({
                "property_id": pid,
                "quick_cmd": "./check quick %s" % pid,
                "thorough_cmd": "./check thorough %s" % pid,
                "evidence_file": "/verif/evidence/%s.json" % pid,
                "replay_cmd_template": "./check replay {path}",
                "engine": "vsched",
                "level_claimed": {"category": "model_checking", "text": text, "design_ref": ref},
                "level_note": NOTE,
                "technique": tech,
            })
        else:
            na.append({"property_id": pid, "reason": NOT_YET})
    m = {
        "version": 1,
        "setup_cmd": "./setup.sh",
        "hooks": {
            "guard": "verif-overlay",
            "enable": "no in-repo hooks: instrumentation is injected at build time with `go build -overlay` (rewritten copies of the repository sources + virtual packages under github.com/anthdm/hollywood/zzverif/...), generated from /repo's current working tree by /verif/vinstr on every check run",
            "baseline_off_cmd": "cd /repo && GOFLAGS=-mod=mod GOPROXY=off GOSUMDB=off go test -vet=off -count=1 -timeout 25m ./...",
            "source_commits": [],
            "add_only": True,
        },
        "engines": [
            {"name": "vsched", "path": "/verif/zzverif/vsched", "serves_properties": sorted(CLAIMED),
             "kind_free_text": "hand-written controlled scheduler (one baton, scheduling points at every sync/atomic/channel/timer/context operation), virtual time, iterative deviation-bounded DFS with happens-before (Mazurkiewicz) state caching, replayable choice lists"},
            {"name": "vinstr", "path": "/verif/vinstr", "serves_properties": sorted(CLAIMED),
             "kind_free_text": "go/ast+go/types source rewriter producing the overlay that binds the repository's real code to vsched"},
        ],
        "checks": checks,
        "not_applicable": na,
        "notes": "All checks: ./check <quick|thorough> <id>; exit 0 held / only listed open findings, 1 VIOLATION, 2 infrastructure error. Known findings: /verif/known_findings.json.",
    }
    json.dump(m, open(os.path.join(VERIF, "MANIFEST.json"), "w"), indent=1)
    print("wrote MANIFEST.json: %d checks, %d not_applicable" % (len(checks), len(na)))


if __name__ == "__main__":
    main()
