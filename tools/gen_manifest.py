#!/usr/bin/env python3
"""Regenerates /verif/MANIFEST.json from the table below (run after adding a check)."""
import json, os

VERIF = os.path.dirname(os.path.dirname(os.path.abspath(__file__)))

S = "stateless model checking of the real code: controlled cooperative scheduler + iterative deviation-bounded DFS with happens-before state caching"
H = "explicit-state search over operation histories, each transition a call of the real handler/API under the controlled scheduler, states canonicalised and deduplicated, compared with a reference model"
I = "bounded exhaustive input enumeration through the real encode/decode path against a reference model (no scheduler needed: the path is sequential)"

NOTE = ("Trusted base: the vsched scheduler/explorer and the vinstr source rewriter (imports of sync, sync/atomic, time, context, runtime, math/rand redirected; "
        "go/chan/select/map-range rewritten one-for-one), Go compiler. Assumes SC atomics and data-race freedom on plain memory, distinct random ids; "
        "bounded thread/message/history sizes as listed in the evidence file.")

CLAIMED = {
    "C14": (H + " (sequential part: BFS keyed on ring geometry) + " + S + " (concurrent part, brute-force linearizability check of every explored history against the FIFO model)", "Sequential: every operation sequence up to depth 20 (quick) / 34 (thorough) from initial sizes 1..4 with state key (mod, head, tail, len), each return value compared with a slice model. Concurrent: 2 threads x 1-2 operations and 3 threads x 1 operation from 8 start states (empty, full, wrapped, about to grow), all schedules (unbounded search finished); every call/return history checked for linearizability.", "§5 C14"),
    "C01": (S, "Exactly-once / content / per-sender order of delivery through the real Inbox+RingBuffer (1-3 sender threads, 2-5 messages, initial ring sizes 1-4 so that the ring grows while wrapped), and through the public engine API; deviation bound 2-3 (unbounded where the search finishes).", "§5 C01"),
    "C02": (S, "At most one worker inside Invoke/Receive per actor and each invocation happens-after the previous one (vector clocks over the real synchronisation edges), under all schedules up to deviation bound 3 with a Processer that yields inside Invoke.", "§5 C02"),
    "C05": (S, "Every history over {ok message, panics-once, always-panics} up to length 3 (quick) / 4 (thorough) within the restart budget, issued as one batch and by a racing driver thread, restart delay 0 and >0 (virtual time), deviation bound 1 (quick) / 2 (thorough): no escaped panic, Stopped to the failed incarnation, one ActorRestartedEvent per failure with the right count, fresh incarnation, queued messages redelivered in order exactly once, failing message not redelivered, bystander unaffected.", "§5 C05"),
    # id: (technique, level text, design ref)
    "C03": (S, "All interleavings of Send (push, try-schedule), Start and the worker's last empty pop / running->idle CAS / Len re-check on the real Inbox+RingBuffer: unbounded (all schedules) for up to 3 threads, deviation bound 3 beyond; every quiescent end state must be idle with an empty ring and every pushed message invoked.", "§5 C03"),
}

NOT_YET = "check not built yet in this session (planned: see DESIGN.md §5); not claimed until it runs green on the unchanged tree"


def main():
    props = [json.loads(l) for l in open(os.path.join(VERIF, "properties.jsonl"))]
    checks, na = [], []
    for p in props:
        pid = p["id"]
        if pid in CLAIMED:
            tech, text, ref = CLAIMED[pid]
            checks.append({
                "property_id": pid,
                "quick_cmd": "./check quick %s" % pid,
                "thorough_cmd": "./check thorough %s" % pid,
                "evidence_file": "/verif/evidence/%s.json" % pid,
                "replay_cmd_template": "./check replay {path}",
                "engine": "vsched",
                "level_claimed": {"category": "model_checking", "text": text, "design_ref": ref},
                "level_note": NOTE,
                "technique": tech,
            })
        else:
            na.append({"property_id": pid, "reason": NOT_YET})
    m = {
        "version": 1,
        "setup_cmd": "./setup.sh",
        "hooks": {
            "guard": "verif-overlay",
            "enable": "no in-repo hooks: instrumentation is injected at build time with `go build -overlay` (rewritten copies of the repository sources + virtual packages under github.com/anthdm/hollywood/zzverif/...), generated from /repo's current working tree by /verif/vinstr on every check run",
            "baseline_off_cmd": "cd /repo && GOFLAGS=-mod=mod GOPROXY=off GOSUMDB=off go test -vet=off -count=1 -timeout 25m ./...",
            "source_commits": [],
            "add_only": True,
        },
        "engines": [
            {"name": "vsched", "path": "/verif/zzverif/vsched", "serves_properties": sorted(CLAIMED),
             "kind_free_text": "hand-written controlled scheduler (one baton, scheduling points at every sync/atomic/channel/timer/context operation), virtual time, iterative deviation-bounded DFS with happens-before (Mazurkiewicz) state caching, replayable choice lists"},
            {"name": "vinstr", "path": "/verif/vinstr", "serves_properties": sorted(CLAIMED),
             "kind_free_text": "go/ast+go/types source rewriter producing the overlay that binds the repository's real code to vsched"},
        ],
        "checks": checks,
        "not_applicable": na,
        "notes": "All checks: ./check <quick|thorough> <id>; exit 0 held / only listed open findings, 1 VIOLATION, 2 infrastructure error. Known findings: /verif/known_findings.json.",
    }
    json.dump(m, open(os.path.join(VERIF, "MANIFEST.json"), "w"), indent=1)
    print("wrote MANIFEST.json: %d checks, %d not_applicable" % (len(checks), len(na)))


if __name__ == "__main__":
    main()
