#!/usr/bin/env python3
"""seedtest.py <patch.diff> <prop> [<prop>...] [--tier quick|thorough] : copy /repo to a scratch dir outside /repo and /verif,
apply the patch there, run the given checks against the copy (VERIF_REPO), print their verdicts, remove the copy.
Evidence files are restored afterwards (they must come from runs against /repo itself)."""
import sys, os, subprocess, shutil, tempfile
ROOT = os.path.dirname(os.path.dirname(os.path.abspath(__file__)))
args = sys.argv[1:]
tier = "quick"
if "--tier" in args:
    i = args.index("--tier"); tier = args[i + 1]; del args[i:i + 2]
patch, props = os.path.abspath(args[0]), args[1:]
d = tempfile.mkdtemp(prefix="seedrun", dir="/tmp")
env = dict(os.environ, GOFLAGS="-mod=mod", GOPROXY="off", GOSUMDB="off", GOTOOLCHAIN="local")
rc_all = 0
try:
    subprocess.check_call(["rsync", "-a", "--exclude", ".git", "/repo/", d + "/"])
    r = subprocess.run(["patch", "-p1", "--no-backup-if-mismatch", "-i", patch], cwd=d, capture_output=True, text=True)
    if r.returncode != 0:
        print("PATCH-FAILED\n" + r.stdout + r.stderr); sys.exit(3)
    r = subprocess.run(["go", "build", "./..."], cwd=d, env=env, capture_output=True, text=True)
    if r.returncode != 0:
        print("BUILD-FAILED\n" + r.stderr); sys.exit(3)
    for pr in props:
        r = subprocess.run([os.path.join(ROOT, "check"), tier, pr], env=dict(env, VERIF_REPO=d), capture_output=True, text=True)
        lines = (r.stdout + r.stderr).strip().split("\n")
        viol = [l for l in lines if l.startswith("VIOLATION")]
        print("== %s rc=%d violations=%d" % (pr, r.returncode, len(viol)))
        for l in (viol[:4] or lines[-2:]):
            print("   " + l[:330])
        if r.returncode == 1:
            rc_all = 1
finally:
    shutil.rmtree(d, ignore_errors=True)
    subprocess.run("git -C %s checkout -- evidence 2>/dev/null" % ROOT, shell=True)
sys.exit(rc_all)
