#!/usr/bin/env python3
"""mut.py <file> <old> <new> <prop> [<prop>...] [--tests] : copy /repo to a scratch dir, apply one textual
replacement, optionally run the repository tests on it, run the quick checks against it (VERIF_REPO), clean up."""
import sys, os, subprocess, shutil, tempfile
ROOT = os.path.dirname(os.path.dirname(os.path.abspath(__file__)))
args = [a for a in sys.argv[1:] if a != "--tests"]
tests = "--tests" in sys.argv
f, old, new, props = args[0], args[1], args[2], args[3:]
d = tempfile.mkdtemp(prefix="mut", dir="/tmp")
try:
    subprocess.check_call(["rsync", "-a", "--exclude", ".git", "/repo/", d + "/"])
    p = os.path.join(d, f)
    s = open(p).read()
    if old not in s:
        print("pattern not found"); sys.exit(3)
    open(p, "w").write(s.replace(old, new, 1))
    env = dict(os.environ, GOFLAGS="-mod=mod", GOPROXY="off", GOSUMDB="off", GOTOOLCHAIN="local")
    if tests:
        r = subprocess.run("go test -vet=off -count=1 ./... 2>&1 | tail -8", shell=True, cwd=d, env=env)
    for pr in props:
        r = subprocess.run([os.path.join(ROOT, "check"), "quick", pr], env=dict(env, VERIF_REPO=d), capture_output=True, text=True)
        lines = (r.stdout + r.stderr).strip().split("\n")
        print("== %s rc=%d" % (pr, r.returncode))
        for l in lines[:6]:
            print("   " + l[:400])
finally:
    shutil.rmtree(d, ignore_errors=True)
    subprocess.run("git -C %s checkout -- evidence 2>/dev/null" % ROOT, shell=True)
