#!/usr/bin/env python3
"""seedverify.py <seed dir> <id> <property> : confirm a seeded change in a scratch git worktree of /repo (outside /repo and
/verif): the patch applies to the current HEAD, the tree builds, the repository's own tests pass with it, the demonstration
fails with it and passes without it. Then store it as /verif/seeded/<id>/ (patch.diff rebased to HEAD, demo, meta.json).
The worktree and its build output are removed afterwards."""
import sys, os, subprocess, shutil, json, glob, re, time
seed, sid, prop = os.path.abspath(sys.argv[1]), sys.argv[2], sys.argv[3]
env = dict(os.environ, GOFLAGS="-mod=mod", GOPROXY="off", GOSUMDB="off", GOTOOLCHAIN="local")
wt = "/tmp/seedwt-%s-%d" % (sid.replace("/", "_"), os.getpid())
NS = "/verif/tools/nsrun.sh"
def run(cmd, cwd=None, timeout=1500):
    p = subprocess.run(cmd, cwd=cwd, env=env, capture_output=True, text=True, timeout=timeout, shell=isinstance(cmd, str))
    return p.returncode, p.stdout + p.stderr
meta = {"id": sid, "property": prop, "verified_at_repo_head": subprocess.check_output(["git", "-C", "/repo", "rev-parse", "--short", "HEAD"], text=True).strip()}
try:
    rc, out = run(["git", "-C", "/repo", "worktree", "add", "--detach", wt, "HEAD"])
    if rc: print(out); sys.exit(2)
    patch = os.path.join(seed, "patch.rebased.diff")
    if not os.path.exists(patch): patch = os.path.join(seed, "patch.diff")
    rc, out = run(["patch", "-p1", "--no-backup-if-mismatch", "-i", patch], cwd=wt)
    if rc: print("PATCH-FAILED", out); sys.exit(3)
    rc, diff = run(["git", "diff"], cwd=wt)
    rc, out = run(["go", "build", "./..."], cwd=wt)
    if rc: print("BUILD-FAILED", out); sys.exit(3)
    # existing tests with the change (cluster tests are sleep-based and flaky under load: up to 3 attempts)
    suite = []
    # the four fast packages once (twice if a 1 ms-deadline test trips under load), then the cluster package, whose
    # TestGetActiveByID/ByKind rely on a 10 ms sleep and flake on the unmodified code too: up to 8 attempts
    for pk, attempts in (["./actor/", "./remote/", "./ringbuffer/", "./safemap/"], 3), (["./cluster/"], 8):
        for attempt in range(attempts):
            rc, out = run([NS, "go", "test", "-vet=off", "-count=1", "-p", "1"] + pk, cwd=wt)
            failed = sorted(set(re.findall(r"--- FAIL: (\S+)", out)))
            suite.append({"pkgs": " ".join(pk), "rc": rc, "failed": failed})
            if rc == 0: break
    meta["existing_tests_with_change"] = suite
    # demo
    demos = [f for f in glob.glob(os.path.join(seed, "*_test.go"))]
    placed = []
    for d in demos:
        src = open(d).read()
        m = re.search(r"^package (\w+)", src, re.M)
        pkg = m.group(1).replace("_test", "")
        dst = os.path.join(wt, pkg, os.path.basename(d))
        shutil.copy(d, dst); placed.append((pkg, os.path.basename(d)))
    pkgs = sorted(set("./%s/" % p for p, _ in placed))
    names = []
    for d in demos:
        names += re.findall(r"^func (Test\w+)\(", open(d).read(), re.M)
    runre = "^(" + "|".join(names) + ")$"
    def demo():
        res = []
        for k in range(2):
            rc, out = run(["go", "test", "-vet=off", "-count=1", "-timeout", "600s", "-run", runre] + pkgs, cwd=wt)
            res.append(rc)
        return res
    meta["demo_files"] = [b for _, b in placed]
    meta["demo_cmd"] = "go test -vet=off -count=1 -run '%s' %s" % (runre, " ".join(pkgs))
    with_change = demo()
    run(["patch", "-R", "-p1", "--no-backup-if-mismatch", "-i", patch], cwd=wt)
    without = demo()
    meta["demo_rc_with_change"] = with_change
    meta["demo_rc_without_change"] = without
    ok = all(r != 0 for r in with_change) and all(r == 0 for r in without) and all(any(s["rc"] == 0 for s in suite if s["pkgs"] == pk) for pk in set(s["pkgs"] for s in suite))
    meta["confirmed"] = ok
    notes = os.path.join(seed, "notes.md")
    dst = os.path.join("/verif/seeded", sid)
    os.makedirs(dst, exist_ok=True)
    open(os.path.join(dst, "patch.diff"), "w").write(diff)
    for d in demos: shutil.copy(d, dst)
    if os.path.exists(notes): shutil.copy(notes, dst)
    old = {}
    if os.path.exists(os.path.join(dst, "meta.json")):
        old = json.load(open(os.path.join(dst, "meta.json")))
    old.update(meta)
    json.dump(old, open(os.path.join(dst, "meta.json"), "w"), indent=1)
    print(sid, "confirmed" if ok else "NOT-CONFIRMED", json.dumps(meta)[:600])
finally:
    subprocess.run(["git", "-C", "/repo", "worktree", "remove", "--force", wt], capture_output=True)
    shutil.rmtree(wt, ignore_errors=True)
