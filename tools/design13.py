#!/usr/bin/env python3
"""design13.py : regenerate the generated part of DESIGN.md §13 (seed count, per-property table) from seeded/*/meta.json."""
import json, os, glob, re
ROOT = os.path.dirname(os.path.dirname(os.path.abspath(__file__)))
metas = [json.load(open(m)) for m in sorted(glob.glob(os.path.join(ROOT, "seeded", "*", "meta.json")))]
byprop = {}
for m in metas:
    byprop.setdefault(m["property"], []).append(m)
rows = ["| property | kept changes (ids) | reported by | signatures of the first violation |", "|---|---|---|---|"]
tot = det = 0
for p in sorted(byprop):
    ids, by, sigs = [], set(), []
    for m in byprop[p]:
        tot += 1
        ch = m.get("checks", {})
        hit = [(k, v) for k, v in ch.items() if isinstance(v, dict) and v.get("exit") == 1]
        ids.append(m["id"].split("-", 1)[1] + ("" if hit else " (!)"))
        if hit:
            det += 1
        for k, v in hit:
            by.add(k)
            if v.get("first_signature") and v["first_signature"] not in sigs:
                sigs.append(v["first_signature"])
    rows.append("| %s | %d: %s | %s | %s |" % (p, len(ids), ", ".join(ids), ", ".join(sorted(by)), "; ".join(sigs[:6]) + (" ..." if len(sigs) > 6 else "")))
table = "\n".join(rows) + "\n\n(%d changes, %d reported by the quick check(s) listed; `(!)` marks one that is not - see MATRIX.md.)\n" % (tot, det)
p = os.path.join(ROOT, "DESIGN.md")
s = open(p).read()
beg, end = "<!-- seeds:begin -->", "<!-- seeds:end -->"
if beg in s:
    s = s[:s.index(beg)] + beg + "\n" + table + end + s[s.index(end) + len(end):]
else:
    s = s.replace("PERPROP", beg + "\n" + table + end)
s = re.sub(r"(SEEDCOUNT|\b\d+ changes are kept\.)", "%d changes are kept." % tot, s, count=1) if "SEEDCOUNT" in s or re.search(r"\b\d+ changes are kept\.", s) else s
s = s.replace("%d changes are kept. changes are kept." % tot, "%d changes are kept." % tot)
open(p, "w").write(s)
print("seeds", tot, "detected", det)
