#!/usr/bin/env python3
"""seedmatrix.py [ids...] : for every seeded change under /verif/seeded (or the given ids) apply patch.diff to a scratch copy
of /repo (outside /repo and /verif), run the quick check of the property it breaks against that copy, record verdict and
first violation in seeded/<id>/meta.json ("checks"), and write seeded/MATRIX.md. Scratch copies are removed."""
import sys, os, subprocess, shutil, tempfile, json, re
ROOT = os.path.dirname(os.path.dirname(os.path.abspath(__file__)))
ids = sys.argv[1:] or sorted(d for d in os.listdir(os.path.join(ROOT, "seeded")) if os.path.isdir(os.path.join(os.path.join(ROOT, "seeded"), d)))
env = dict(os.environ, GOFLAGS="-mod=mod", GOPROXY="off", GOSUMDB="off", GOTOOLCHAIN="local")
EXTRA = {"C17-b": ["C15"], "C04-c": ["C13"], "C02-b": ["C05"], "C02-c": ["C04"], "C03-a": ["C01"], "C03-b": ["C01"], "C01-b": ["C03"],
         # changes that break the property they were written for through a mechanism another property's check is the natural home of
         "C01-r4a": ["C05"], "C01-r4c": ["C05"], "C05-r4a": ["C07"], "C09-r4c": ["C11"], "C12-r4b": ["C10"], "C17-r4b": ["C15"], "C17-r2a": ["C15"], "C03-r2c": ["C05"]}
for sid in ids:
    d = os.path.join(os.path.join(ROOT, "seeded"), sid)
    meta = json.load(open(os.path.join(d, "meta.json")))
    prop = meta["property"]
    scratch = tempfile.mkdtemp(prefix="seedmx", dir="/tmp")
    try:
        subprocess.check_call(["rsync", "-a", "--exclude", ".git", "/repo/", scratch + "/"])
        r = subprocess.run(["git", "apply", os.path.join(d, "patch.diff")], cwd=scratch, capture_output=True, text=True)
        if r.returncode != 0:
            r = subprocess.run(["patch", "-p1", "--no-backup-if-mismatch", "-i", os.path.join(d, "patch.diff")], cwd=scratch, capture_output=True, text=True)
        if r.returncode != 0:
            meta["checks"] = {"error": "patch does not apply to the current /repo HEAD"}
        else:
            res = {}
            for pr in [prop] + EXTRA.get(sid, []):
                r = subprocess.run([os.path.join(ROOT, "check"), "quick", pr], env=dict(env, VERIF_REPO=scratch), capture_output=True, text=True)
                viol = [l for l in (r.stdout + r.stderr).splitlines() if l.startswith("VIOLATION")]
                first = ""
                if viol:
                    m = re.search(r"#\s*(\S+):", viol[0])
                    first = m.group(1) if m else ""
                res[pr] = {"exit": r.returncode, "violations": len(viol), "first_signature": first}
            meta["checks"] = res
        json.dump(meta, open(os.path.join(d, "meta.json"), "w"), indent=1)
        print(sid, meta["checks"], flush=True)
    finally:
        shutil.rmtree(scratch, ignore_errors=True)
subprocess.run("git -C %s checkout -- evidence 2>/dev/null" % ROOT, shell=True)
# matrix
rows = []
for sid in sorted(os.listdir(os.path.join(ROOT, "seeded"))):
    mp = os.path.join(os.path.join(ROOT, "seeded"), sid, "meta.json")
    if not os.path.exists(mp):
        continue
    m = json.load(open(mp))
    ch = m.get("checks", {})
    det = "; ".join("%s: %s%s" % (p, "DETECTED" if v.get("exit") == 1 else ("exit %s" % v.get("exit")), (" (" + v["first_signature"] + ")") if v.get("first_signature") else "") for p, v in ch.items() if isinstance(v, dict))
    rows.append("| %s | %s | %s | %s | %s |" % (sid, m.get("property"), (m.get("needs") or m.get("summary") or "").replace("|", "/")[:160], "yes" if m.get("confirmed") else "no", det or str(ch)))
open("/verif/seeded/MATRIX.md", "w").write("# Seeded property-breaking changes and the checks that catch them\n\n| id | property | what it needs to manifest | confirmed (tests pass, demo fails with / passes without) | quick check verdict on the changed tree |\n|---|---|---|---|---|\n" + "\n".join(rows) + "\n")
