module verifharness

go 1.22.12

require (
	github.com/anthdm/hollywood v0.0.0
	google.golang.org/protobuf v1.32.0
)

require (
	github.com/DataDog/gostackparse v0.7.0 // indirect
	github.com/armon/go-metrics v0.4.1 // indirect
	github.com/cenkalti/backoff v2.2.1+incompatible // indirect
	github.com/fatih/color v1.16.0 // indirect
	github.com/golang/protobuf v1.5.3 // indirect
	github.com/grandcat/zeroconf v1.0.0 // indirect
	github.com/hashicorp/consul/api v1.31.2 // indirect
	github.com/hashicorp/errwrap v1.1.0 // indirect
	github.com/hashicorp/go-cleanhttp v0.5.2 // indirect
	github.com/hashicorp/go-hclog v1.5.0 // indirect
	github.com/hashicorp/go-immutable-radix v1.3.1 // indirect
	github.com/hashicorp/go-multierror v1.1.1 // indirect
	github.com/hashicorp/go-rootcerts v1.0.2 // indirect
	github.com/hashicorp/golang-lru v0.5.4 // indirect
	github.com/hashicorp/serf v0.10.1 // indirect
	github.com/klauspost/cpuid/v2 v2.0.9 // indirect
	github.com/mattn/go-colorable v0.1.13 // indirect
	github.com/mattn/go-isatty v0.0.20 // indirect
	github.com/miekg/dns v1.1.41 // indirect
	github.com/mitchellh/mapstructure v1.5.0 // indirect
	github.com/planetscale/vtprotobuf v0.5.0 // indirect
	github.com/zeebo/errs v1.2.2 // indirect
	github.com/zeebo/xxh3 v1.0.2 // indirect
	golang.org/x/exp v0.0.0-20250106191152-7588d65b2ba8 // indirect
	golang.org/x/net v0.34.0 // indirect
	golang.org/x/sys v0.29.0 // indirect
	golang.org/x/text v0.21.0 // indirect
	google.golang.org/genproto/googleapis/rpc v0.0.0-20231002182017-d307bd883b97 // indirect
	google.golang.org/grpc v1.60.1 // indirect
	storj.io/drpc v0.0.33 // indirect
)

replace github.com/anthdm/hollywood => /repo
