package scen

import (
	"fmt"
	"strings"

	"github.com/anthdm/hollywood/actor"
	"github.com/anthdm/hollywood/zzverif/vsched"
)

// recProc is a recording actor.Processer driven directly by a real Inbox.
type recProc struct {
	log      []int
	senders  []*actor.PID
	in       bool
	overlap  bool
	workers  map[int]bool
	batches  []int
	exitVC   vsched.VC
	hbBroken bool
	yield    bool
}

func (p *recProc) Start()                           {}
func (p *recProc) PID() *actor.PID                  { return nil }
func (p *recProc) Send(*actor.PID, any, *actor.PID) {}
func (p *recProc) Shutdown()                        {}
func (p *recProc) Invoke(msgs []actor.Envelope) {
	if p.in {
		p.overlap = true
	}
	p.in = true
	vc := vsched.Clock()
	if p.exitVC != nil && !p.exitVC.Leq(vc) {
		p.hbBroken = true
	}
	if p.yield {
		vsched.Yield() // give a second worker, if one can exist, the chance to enter
	}
	p.batches = append(p.batches, len(msgs))
	for _, m := range msgs {
		p.log = append(p.log, m.Msg.(int))
		p.senders = append(p.senders, m.Sender)
	}
	vsched.Touch("proc")
	p.exitVC = vsched.Clock()
	p.in = false
}

type inboxParams struct {
	T, M, Size int
	StartMode  int // 0: Start before senders; 1: Start on its own thread racing with the senders; 2: Start after all sends were issued (own thread, Quiesce first)
	Yield      bool
}

func (ip inboxParams) String() string {
	return fmt.Sprintf("T%dm%ds%dst%d", ip.T, ip.M, ip.Size, ip.StartMode)
}

var senderPool = []*actor.PID{nil, actor.NewPID("local", "s/1"), actor.NewPID("local", "s/2")}

// inboxInstance: T sender threads x M messages into one real Inbox+RingBuffer.
func inboxInstance(ip inboxParams) vsched.Instance {
	var in *actor.Inbox
	proc := &recProc{yield: ip.Yield}
	body := func() {
		in = actor.NewInbox(ip.Size)
		switch ip.StartMode {
		case 0:
			in.Start(proc)
		case 1:
			vsched.Go("starter", func() { in.Start(proc) })
		}
		for t := 0; t < ip.T; t++ {
			t := t
			vsched.Go("sender", func() {
				for i := 0; i < ip.M; i++ {
					id := t*100 + i
					in.Send(actor.Envelope{Msg: id, Sender: senderPool[id%3]})
				}
			})
		}
		if ip.StartMode == 2 {
			vsched.Quiesce()
			in.Start(proc)
		}
	}
	check := func(r *vsched.Result) []vsched.Violation {
		vs := stdEnd(r)
		if len(vs) > 0 {
			return vs
		}
		seen := map[int]int{}
		last := map[int]int{}
		for k, id := range proc.log {
			seen[id]++
			t := id / 100
			if l, ok := last[t]; ok && l > id {
				vs = append(vs, V("order/same-sender-reordered", "thread %d: %d delivered after %d (log %v)", t, id, l, proc.log))
			}
			last[t] = id
			if proc.senders[k] != senderPool[id%3] {
				vs = append(vs, V("content/sender-substituted", "message %d carries sender %v", id, proc.senders[k]))
			}
		}
		for t := 0; t < ip.T; t++ {
			for i := 0; i < ip.M; i++ {
				id := t*100 + i
				switch n := seen[id]; {
				case n == 0:
					st, ln := actor.VerifInboxStatus(in), actor.VerifInboxLen(in)
					if st == actor.VerifIdle && ln > 0 {
						vs = append(vs, V("lost-wakeup/idle-with-nonempty-inbox", "message %d never invoked; status=idle len=%d log=%v", id, ln, proc.log))
					} else {
						vs = append(vs, V("loss/message-never-invoked", "message %d never invoked; status=%d len=%d log=%v", id, st, ln, proc.log))
					}
				case n > 1:
					vs = append(vs, V("duplicate/message-invoked-twice", "message %d invoked %d times (log %v)", id, n, proc.log))
				}
				delete(seen, id)
			}
		}
		for id := range seen {
			vs = append(vs, V("content/unknown-message", "message %d was never sent", id))
		}
		if st, ln := actor.VerifInboxStatus(in), actor.VerifInboxLen(in); st != actor.VerifIdle || ln != 0 {
			vs = append(vs, V("end-state/not-idle-empty", "at quiescence status=%d len=%d", st, ln))
		}
		if proc.overlap {
			vs = append(vs, V("serial/overlapping-invoke", "two Invoke calls overlapped"))
		}
		if proc.hbBroken {
			vs = append(vs, V("serial/invoke-not-ordered-after-previous", "an Invoke did not happen-after the previous one"))
		}
		return vs
	}
	outcome := func() string {
		var sb strings.Builder
		fmt.Fprint(&sb, proc.log, proc.batches)
		return sb.String()
	}
	return vsched.Instance{Body: body, Check: check, Outcome: outcome}
}

func init() {
	reg := func(prop string, ip inboxParams, tier string, b, bt int) {
		_ = ip
		Register(&Job{
			Name: fmt.Sprintf("%s/inbox/%s", prop, ip), Prop: prop, Tier: tier, Bound: b, BoundT: bt, Budget: 25, BudgetT: 240,
			Desc: fmt.Sprintf("real Inbox+RingBuffer, %d sender threads x %d messages, initial ring size %d, start mode %d, recording Processer", ip.T, ip.M, ip.Size, ip.StartMode),
			Make: func() vsched.Instance { return inboxInstance(ip) },
		})
	}
	// C03: no lost wake-up. Start racing with sends; every quiescent end state is idle+empty.
	for _, st := range []int{0, 1, 2} {
		reg("C03", inboxParams{T: 1, M: 2, Size: 1, StartMode: st}, "quick", 99, 99)
		reg("C03", inboxParams{T: 2, M: 1, Size: 1, StartMode: st}, "quick", 99, 99)
		reg("C03", inboxParams{T: 2, M: 2, Size: 2, StartMode: st}, "quick", 3, 99)
		reg("C03", inboxParams{T: 3, M: 1, Size: 1, StartMode: st}, "quick", 3, 99)
		reg("C03", inboxParams{T: 3, M: 2, Size: 2, StartMode: st}, "thorough", 3, 4)
		reg("C03", inboxParams{T: 4, M: 1, Size: 1, StartMode: st}, "thorough", 3, 3)
	}
	// C01 (inbox level): exactly-once, content, per-sender order, growth while wrapped.
	for _, size := range []int{1, 2, 3, 4} {
		reg("C01", inboxParams{T: 1, M: 5, Size: size, StartMode: 0}, "quick", 3, 99)
		reg("C01", inboxParams{T: 2, M: 2, Size: size, StartMode: 0}, "quick", 3, 99)
		reg("C01", inboxParams{T: 2, M: 3, Size: size, StartMode: 1}, "quick", 2, 4)
		reg("C01", inboxParams{T: 3, M: 2, Size: size, StartMode: 0}, "thorough", 2, 3)
	}
	// C01: the real batch boundary (messageBatchSize = 4096 in the unscaled build): 4096+3 messages are
	// queued before Start (the ring grows from 1-2 slots to 8192), then the worker drains them in
	// batches of 4096 and 3.
	for _, size := range []int{1, 2} {
		ip := inboxParams{T: 1, M: 4099, Size: size, StartMode: 2}
		Register(&Job{Name: fmt.Sprintf("C01/inbox-real-batch/%s", ip), Prop: "C01", Bound: 0, BoundT: 0, Budget: 40, BudgetT: 120, Horizon: 400000,
			Desc: "real Inbox with the repository's own messageBatchSize: 4099 messages queued before Start, drained in batches of 4096 + 3; exactly-once, order, senders",
			Make: func() vsched.Instance { return inboxInstance(ip) }})
	}
	// C02 (inbox level): at most one worker inside Invoke, each Invoke after the previous.
	for _, size := range []int{1, 2} {
		reg("C02", inboxParams{T: 2, M: 2, Size: size, StartMode: 1, Yield: true}, "quick", 3, 99)
		reg("C02", inboxParams{T: 3, M: 1, Size: size, StartMode: 1, Yield: true}, "quick", 3, 99)
		reg("C02", inboxParams{T: 3, M: 2, Size: size, StartMode: 1, Yield: true}, "thorough", 3, 4)
	}
}
