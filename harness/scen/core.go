// Package scen holds the scenario drivers and oracles, one file per property group.
package scen

import (
	"fmt"
	"sort"
	"strings"

	"github.com/anthdm/hollywood/zzverif/vsched"
)

// Job is one exhaustive exploration: a closed driver + oracle with fixed parameters.
type Job struct {
	Name     string // unique, e.g. C03/inbox/T2m2s1
	Prop     string
	Family   string // "clean" or "trigger:<finding>"
	Tier     string // "quick" = in both tiers, "thorough" = thorough tier only
	Bound    int    // deviation bound, quick tier
	BoundT   int    // deviation bound, thorough tier
	Budget   int    // seconds, quick tier
	BudgetT  int    // seconds, thorough tier
	Horizon  int
	Make     func() vsched.Instance
	Desc     string
	Kind     string // "sched" (default) or "direct" (Run does its own enumeration)
	Run      func(tier string, budget int) *DirectReport
	NoMapOrd bool // do not explore alternative map iteration orders
	DumpOutcomes bool // the report lists every distinct outcome record (C17: the conformance leg matches real runs against them)
	Shards   int  // >1: the job's variant list is split round-robin over this many independent jobs (run in parallel by the driver)
	Shard    int  // which shard this job is (set by Register)
}

// CurShard/NShards are set by the runner before a job is explored or replayed; scenario
// bodies pick their variant with chooseVariant so that each shard enumerates its own slice.
var CurShard, NShards = 0, 1

// chooseVariant is the data choice "which variant of the scenario" restricted to the current shard.
func chooseVariant(n int) int {
	if NShards <= 1 {
		return vsched.Choose(n)
	}
	m := (n - CurShard + NShards - 1) / NShards
	if m <= 0 {
		panic("scen: shard without variants (Shards > number of variants)")
	}
	return CurShard + NShards*vsched.Choose(m)
}

var Jobs []*Job

func Register(j *Job) {
	if j.Tier == "" {
		j.Tier = "quick"
	}
	if j.Family == "" {
		j.Family = "clean"
	}
	if j.BoundT < j.Bound {
		j.BoundT = j.Bound
	}
	if j.Budget == 0 {
		j.Budget = 20
	}
	if j.BudgetT == 0 {
		j.BudgetT = j.Budget * 10
	}
	if n, ok := shardTable[j.Name]; ok && j.Shards == 0 {
		j.Shards = n
	}
	if j.Shards > 1 {
		for i := 0; i < j.Shards; i++ {
			c := *j
			c.Shard = i
			c.Name = fmt.Sprintf("%s#s%d", j.Name, i)
			c.Desc = fmt.Sprintf("%s [shard %d of %d of the variant list]", j.Desc, i+1, j.Shards)
			Jobs = append(Jobs, &c)
		}
		return
	}
	j.Shards = 1
	Jobs = append(Jobs, j)
}

// DirectReport is what a scheduler-free enumeration returns.
type DirectReport struct {
	Evaluations int64
	States      int64
	Transitions int64
	Outcomes    map[string]int64
	Witnesses   map[string]*vsched.Witness
	Samples     []string
	Exhaustive  bool
	Note        string
}

// V builds a violation.
func V(sig, format string, a ...any) vsched.Violation {
	return vsched.Violation{Signature: sig, Detail: fmt.Sprintf(format, a...)}
}

// blockedExcept returns the blocked threads whose label is not in allow (prefix match).
func blockedExcept(r *vsched.Result, allow ...string) []vsched.Blocked {
	var out []vsched.Blocked
	for _, b := range r.Blocked {
		ok := false
		for _, a := range allow {
			if strings.HasPrefix(b.Name, a) {
				ok = true
			}
		}
		if !ok {
			out = append(out, b)
		}
	}
	return out
}

// stdEnd checks the generic end-of-execution conditions shared by all scenarios.
func stdEnd(r *vsched.Result, allow ...string) []vsched.Violation {
	var vs []vsched.Violation
	for _, p := range r.Panics {
		vs = append(vs, V("panic-escaped", "%s", firstLine(p)))
	}
	if r.Diverged {
		vs = append(vs, V("diverged", "step horizon reached after %d steps", r.Steps))
	}
	if len(r.Panics) == 0 && !r.Diverged {
		if bl := blockedExcept(r, allow...); len(bl) > 0 {
			vs = append(vs, V("deadlock", "blocked at quiescence: %v", bl))
		}
	}
	return vs
}

func firstLine(s string) string {
	if i := strings.IndexByte(s, '\n'); i >= 0 {
		return s[:i]
	}
	return s
}

func sortedKeys[V any](m map[string]V) []string {
	ks := make([]string, 0, len(m))
	for k := range m {
		ks = append(ks, k)
	}
	sort.Strings(ks)
	return ks
}

// shardTable: how many parallel shards the variant list of a job is split into (each shard is a
// job of its own with the full budget; the driver runs up to 16 at a time).
var shardTable = map[string]int{
	"C02/engine/lifecycle-race": 5, "C02/engine/lifecycle-race-large": 7,
	"C04/engine/spawn-race": 5, "C04/engine/spawn-race-large": 7,
	"C04/hist/mixed-len3-mode0": 6, "C04/hist/mixed-len3-mode1": 10, "C04/hist/mixed-len4-mode0": 8, "C04/hist/mixed-len4-mode1": 8,
	"C05/hist/len3-mode0-delayfalse": 3, "C05/hist/len3-mode0-delaytrue": 4, "C05/hist/len3-mode1-delayfalse": 4, "C05/hist/len3-mode1-delaytrue": 5,
	"C05/hist/len4-mode0-delayfalse": 4, "C05/hist/len4-mode0-delaytrue": 4, "C05/hist/len4-mode1-delayfalse": 4, "C05/hist/len4-mode1-delaytrue": 4,
	"C05/hist/lifecycle-handler-panics-mode0": 4, "C05/hist/lifecycle-handler-panics-mode1": 4,
	"C05/hist/lifecycle-handler-panics-seq-mode0": 8, "C05/hist/lifecycle-handler-panics-seq-mode1": 8,
	"C06/hist/exhaust-mode0": 4, "C06/hist/exhaust-mode1": 6,
	"C06/hist/exhaust-long-mode0": 4, "C06/hist/exhaust-long-mode1": 4,
	"C07/hist/one-stop-mode0": 4, "C07/hist/one-stop-mode1": 4, "C07/hist/two-stops-mode0": 8, "C07/hist/two-stops-mode1": 8,
	"C08/engine/tree-shutdown": 10, "C08/engine/tree-shutdown-large": 6,
	"C08/engine/child-self-stop-races-shutdown": 2, "C08/engine/child-crash-races-shutdown": 2,
	"C08/engine/third-party-poison-races-shutdown": 2, "C08/engine/child-max-restarts-races-shutdown": 2,
	"C10/engine/concurrent-spawn": 4, "C10/engine/concurrent-spawn-3": 7,
	"C11/engine/request-reply": 6, "C11/engine/multi-reply": 8, "C11/engine/three-requesters": 3,
	"C09/engine/targets-x-messages": 4, "C09/engine/gone-subscriber": 4,
}
