// Package scen holds the scenario drivers and oracles, one file per property group.
package scen

import (
	"fmt"
	"sort"
	"strings"

	"github.com/anthdm/hollywood/zzverif/vsched"
)

// Job is one exhaustive exploration: a closed driver + oracle with fixed parameters.
type Job struct {
	Name     string // unique, e.g. C03/inbox/T2m2s1
	Prop     string
	Family   string // "clean" or "trigger:<finding>"
	Tier     string // "quick" = in both tiers, "thorough" = thorough tier only
	Bound    int    // deviation bound, quick tier
	BoundT   int    // deviation bound, thorough tier
	Budget   int    // seconds, quick tier
	BudgetT  int    // seconds, thorough tier
	Horizon  int
	Make     func() vsched.Instance
	Desc     string
	Kind     string // "sched" (default) or "direct" (Run does its own enumeration)
	Run      func(tier string, budget int) *DirectReport
	NoMapOrd bool // do not explore alternative map iteration orders
}

var Jobs []*Job

func Register(j *Job) {
	if j.Tier == "" {
		j.Tier = "quick"
	}
	if j.Family == "" {
		j.Family = "clean"
	}
	if j.BoundT < j.Bound {
		j.BoundT = j.Bound
	}
	if j.Budget == 0 {
		j.Budget = 20
	}
	if j.BudgetT == 0 {
		j.BudgetT = j.Budget * 10
	}
	Jobs = append(Jobs, j)
}

// DirectReport is what a scheduler-free enumeration returns.
type DirectReport struct {
	Evaluations int64
	States      int64
	Transitions int64
	Outcomes    map[string]int64
	Witnesses   map[string]*vsched.Witness
	Samples     []string
	Exhaustive  bool
	Note        string
}

// V builds a violation.
func V(sig, format string, a ...any) vsched.Violation {
	return vsched.Violation{Signature: sig, Detail: fmt.Sprintf(format, a...)}
}

// blockedExcept returns the blocked threads whose label is not in allow (prefix match).
func blockedExcept(r *vsched.Result, allow ...string) []vsched.Blocked {
	var out []vsched.Blocked
	for _, b := range r.Blocked {
		ok := false
		for _, a := range allow {
			if strings.HasPrefix(b.Name, a) {
				ok = true
			}
		}
		if !ok {
			out = append(out, b)
		}
	}
	return out
}

// stdEnd checks the generic end-of-execution conditions shared by all scenarios.
func stdEnd(r *vsched.Result, allow ...string) []vsched.Violation {
	var vs []vsched.Violation
	for _, p := range r.Panics {
		vs = append(vs, V("panic-escaped", "%s", firstLine(p)))
	}
	if r.Diverged {
		vs = append(vs, V("diverged", "step horizon reached after %d steps", r.Steps))
	}
	if len(r.Panics) == 0 && !r.Diverged {
		if bl := blockedExcept(r, allow...); len(bl) > 0 {
			vs = append(vs, V("deadlock", "blocked at quiescence: %v", bl))
		}
	}
	return vs
}

func firstLine(s string) string {
	if i := strings.IndexByte(s, '\n'); i >= 0 {
		return s[:i]
	}
	return s
}

func sortedKeys[V any](m map[string]V) []string {
	ks := make([]string, 0, len(m))
	for k := range m {
		ks = append(ks, k)
	}
	sort.Strings(ks)
	return ks
}
