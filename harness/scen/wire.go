package scen

// C15 / C16: bounded exhaustive input enumeration through the real wire path:
//   streamWriter.Invoke -> generated client wrapper -> production encoding (MarshalVT) -> bytes
//   -> production decoding (UnmarshalVT) -> generated server wrapper -> streamReader.Receive
//   -> Engine.SendLocal -> synchronous recording Processers.
// No goroutine is involved on that path; the enumeration runs in chunks inside a scheduler
// world in deterministic (setup) mode so that the engine's own actors stay under control.

import (
	"google.golang.org/protobuf/reflect/protodesc"
	"google.golang.org/protobuf/reflect/protoreflect"
	"google.golang.org/protobuf/reflect/protoregistry"
	"google.golang.org/protobuf/types/descriptorpb"
	"google.golang.org/protobuf/types/dynamicpb"
	"fmt"
	"math"
	"sort"
	"strings"
	"time"

	"github.com/anthdm/hollywood/actor"
	"github.com/anthdm/hollywood/remote"
	"github.com/anthdm/hollywood/zzverif/vsched"
	"google.golang.org/protobuf/proto"
)

type wireDelivery struct {
	target string
	msg    any
	sender *actor.PID
}

type wireProc struct {
	pid *actor.PID
	log *[]wireDelivery
}

func (p *wireProc) Start()                {}
func (p *wireProc) PID() *actor.PID       { return p.pid }
func (p *wireProc) Invoke([]actor.Envelope) {}
func (p *wireProc) Shutdown()             {}
func (p *wireProc) Send(_ *actor.PID, msg any, sender *actor.PID) {
	*p.log = append(*p.log, wireDelivery{p.pid.ID, msg, sender})
}

const wireAddr = "10.0.0.2:4000"

var wireTargetIDs = []string{"t/1", "t/2", "u/1"}

type nonProto struct{ X int }

// wireSender returns a fresh PID object (or nil) for sender pool index i.
func wireSender(i int) *actor.PID {
	switch i {
	case 1:
		return actor.NewPID("10.0.0.1:4000", "s/1")
	case 2:
		return actor.NewPID("10.0.0.1:4000", "s/2")
	case 3:
		return actor.NewPID("10.0.0.1:4000", "s/1") // S1': equal to S1, distinct object
	case 4:
		return actor.NewPID("ab", "c")
	case 5:
		return actor.NewPID("a", "bc")
	}
	return nil
}

var wireSenderNames = []string{"nil", "S1", "S2", "S1'", "(ab,c)", "(a,bc)"}
var wirePayloadNames = []string{"TestMessage{a}", "TestMessage{b}", "TestMessage{}", "PID{x,y}", "Ping{from}", "PID{invalid utf-8}", "non-proto value", "dyn.Invoice{ACME,5}", "dyn.Order{bolt,5}"}

// Two message types that exist only as descriptors (loaded at run time, as a gateway or a schema registry
// would): both are *dynamicpb.Message in Go, the protobuf type is what tells them apart.
var dynInvoice, dynOrder protoreflect.MessageType

func init() {
	str, i64, opt := descriptorpb.FieldDescriptorProto_TYPE_STRING.Enum(), descriptorpb.FieldDescriptorProto_TYPE_INT64.Enum(), descriptorpb.FieldDescriptorProto_LABEL_OPTIONAL.Enum()
	fld := func(name string, n int32, t *descriptorpb.FieldDescriptorProto_Type) *descriptorpb.FieldDescriptorProto {
		return &descriptorpb.FieldDescriptorProto{Name: proto.String(name), Number: proto.Int32(n), Type: t, Label: opt}
	}
	fd := &descriptorpb.FileDescriptorProto{Name: proto.String("verifdyn.proto"), Package: proto.String("verifdyn"), Syntax: proto.String("proto3"),
		MessageType: []*descriptorpb.DescriptorProto{
			{Name: proto.String("Invoice"), Field: []*descriptorpb.FieldDescriptorProto{fld("customer", 1, str), fld("cents", 2, i64)}},
			{Name: proto.String("Order"), Field: []*descriptorpb.FieldDescriptorProto{fld("item", 1, str), fld("qty", 2, i64)}},
		}}
	f, err := protodesc.NewFile(fd, protoregistry.GlobalFiles)
	if err != nil {
		panic(err)
	}
	if err := protoregistry.GlobalFiles.RegisterFile(f); err != nil {
		panic(err)
	}
	dynInvoice = dynamicpb.NewMessageType(f.Messages().ByName("Invoice"))
	dynOrder = dynamicpb.NewMessageType(f.Messages().ByName("Order"))
	for _, mt := range []protoreflect.MessageType{dynInvoice, dynOrder} {
		if err := protoregistry.GlobalTypes.RegisterMessage(mt); err != nil {
			panic(err)
		}
	}
}

func dynMsg(mt protoreflect.MessageType, s string, n int64) proto.Message {
	m := mt.New()
	m.Set(mt.Descriptor().Fields().ByNumber(1), protoreflect.ValueOfString(s))
	m.Set(mt.Descriptor().Fields().ByNumber(2), protoreflect.ValueOfInt64(n))
	return m.Interface()
}

func wirePayload(i int) (any, bool) {
	switch i {
	case 0:
		return &remote.TestMessage{Data: []byte("a")}, true
	case 1:
		return &remote.TestMessage{Data: []byte("b")}, true
	case 2:
		return &remote.TestMessage{}, true
	case 3:
		return &actor.PID{Address: "x", ID: "y"}, true
	case 4:
		return &actor.Ping{From: &actor.PID{Address: "p", ID: "q"}}, true
	case 5:
		return &actor.PID{Address: "\xff\xfe", ID: "bad"}, false // proto.Marshal: invalid UTF-8
	case 7:
		return dynMsg(dynInvoice, "ACME", 5), true
	case 8:
		return dynMsg(dynOrder, "bolt", 5), true
	}
	return nonProto{7}, false
}

type wireMsg struct{ t, s, p int }

func (m wireMsg) String() string {
	return fmt.Sprintf("%s<-%s:%s", wireTargetIDs[m.t], wireSenderNames[m.s], wirePayloadNames[m.p])
}

type wirePools struct {
	targets, senders, payloads []int
}

func (wp wirePools) size() int { return len(wp.targets) * len(wp.senders) * len(wp.payloads) }
func (wp wirePools) msg(i int) wireMsg {
	p := wp.payloads[i%len(wp.payloads)]
	i /= len(wp.payloads)
	s := wp.senders[i%len(wp.senders)]
	i /= len(wp.senders)
	return wireMsg{wp.targets[i], s, p}
}

var wireFull = wirePools{[]int{0, 1, 2}, []int{0, 1, 2, 3, 4, 5}, []int{0, 1, 2, 3, 4, 5, 6}}
var wireReduced = wirePools{[]int{0, 1}, []int{0, 1, 2, 4, 5}, []int{0, 1, 3, 5, 6}}
var wireTiny = wirePools{[]int{0, 1}, []int{0, 1, 2}, []int{0, 3, 5}}
var wireDyn = wirePools{[]int{0, 1}, []int{0, 1}, []int{0, 7, 8}}

// wireFixture is a receiving engine with recording Processers under every target id.
type wireFixture struct {
	e   *actor.Engine
	log []wireDelivery
}

func newWireFixture() *wireFixture {
	f := &wireFixture{}
	e, err := actor.NewEngine(actor.NewEngineConfig())
	if err != nil {
		panic(err)
	}
	f.e = e
	for _, id := range wireTargetIDs {
		e.SpawnProc(&wireProc{pid: actor.NewPID(wireAddr, id), log: &f.log})
	}
	return f
}

// wireClass names the shape of a batch (for distinct-outcome counting and samples).
func wireClass(b []wireMsg) string {
	nilS, nonNil, coll4, coll5, bad5, bad6 := false, false, false, false, false, false
	tg, ty := map[int]bool{}, map[int]bool{}
	for _, m := range b {
		if m.s == 0 {
			nilS = true
		} else {
			nonNil = true
		}
		coll4 = coll4 || m.s == 4
		coll5 = coll5 || m.s == 5
		bad5 = bad5 || m.p == 5
		bad6 = bad6 || m.p == 6
		tg[m.t] = true
		ty[m.p] = true
	}
	return fmt.Sprintf("len%d targets%d payloadkinds%d mixedNilSender=%v collidingSenders=%v marshalError=%v nonProto=%v", len(b), len(tg), len(ty), nilS && nonNil, coll4 && coll5, bad5, bad6)
}

// wireRoundTrip pushes one batch through writer -> bytes -> reader and compares with the
// reference list. It returns "" or (signature, detail).
func wireRoundTrip(f *wireFixture, b []wireMsg) (string, string) {
	pipe := &remote.VerifPipe{}
	w := remote.VerifWriter(f.e, wireAddr, pipe)
	envs := make([]actor.Envelope, len(b))
	type want struct {
		target string
		sender *actor.PID
		msg    any
	}
	var wants []want
	for i, m := range b {
		pl, ok := wirePayload(m.p)
		tgt := actor.NewPID(wireAddr, wireTargetIDs[m.t])
		snd := wireSender(m.s)
		envs[i] = remote.VerifDeliver(tgt, snd, pl)
		if ok {
			wants = append(wants, want{wireTargetIDs[m.t], snd, pl})
		}
	}
	f.log = f.log[:0]
	if p := catchPanic(func() { w.Invoke(envs) }); p != "" {
		kind := "writer/panic-in-Invoke"
		for _, m := range b {
			if m.p == 6 {
				kind = "writer/panic-on-non-proto-message"
			}
		}
		return kind, fmt.Sprintf("batch %v: streamWriter.Invoke panicked: %s", b, p)
	}
	var rerr error
	if p := catchPanic(func() { rerr = remote.VerifRead(f.e, pipe) }); p != "" {
		return "reader/panic-in-Receive", fmt.Sprintf("batch %v: streamReader.Receive panicked: %s", b, p)
	}
	if rerr != nil {
		return "reader/error-on-own-encoding", fmt.Sprintf("batch %v: Receive returned %v", b, rerr)
	}
	got := f.log
	if len(got) != len(wants) {
		sig := "roundtrip/message-lost"
		if len(got) > len(wants) {
			sig = "roundtrip/phantom-delivery-for-unserialisable-message"
		}
		return sig, fmt.Sprintf("batch %v: %d deliveries, want %d (%s)", b, len(got), len(wants), wireDeliveries(got))
	}
	for i, wv := range wants {
		g := got[i]
		if g.target != wv.target {
			return "roundtrip/delivered-to-wrong-target", fmt.Sprintf("batch %v: message %d delivered to %s, want %s", b, i, g.target, wv.target)
		}
		gm, ok1 := g.msg.(proto.Message)
		wm := wv.msg.(proto.Message)
		if !ok1 || fmt.Sprintf("%T", g.msg) != fmt.Sprintf("%T", wv.msg) {
			return "roundtrip/wrong-type", fmt.Sprintf("batch %v: message %d arrived as %T, want %T", b, i, g.msg, wv.msg)
		}
		if !proto.Equal(gm, wm) {
			return "roundtrip/payload-differs", fmt.Sprintf("batch %v: message %d arrived as %v, want %v", b, i, gm, wm)
		}
		switch {
		case wv.sender == nil && g.sender != nil:
			return "roundtrip/senderless-message-arrives-with-a-sender", fmt.Sprintf("batch %v: message %d sent without sender arrived with %s", b, i, pidStr(g.sender))
		case wv.sender != nil && g.sender == nil:
			return "roundtrip/sender-lost", fmt.Sprintf("batch %v: message %d sent by %s arrived without sender", b, i, pidStr(wv.sender))
		case wv.sender != nil && !wv.sender.Equals(g.sender):
			return "roundtrip/wrong-sender", fmt.Sprintf("batch %v: message %d sent by %s arrived with sender %s", b, i, pidStr(wv.sender), pidStr(g.sender))
		}
	}
	return "", ""
}

func wireDeliveries(d []wireDelivery) string {
	var parts []string
	for _, x := range d {
		parts = append(parts, fmt.Sprintf("%s<-%s:%T%v", x.target, pidStr(x.sender), x.msg, x.msg))
	}
	return strings.Join(parts, " ")
}

func catchPanic(f func()) (msg string) {
	defer func() {
		if r := recover(); r != nil {
			msg = fmt.Sprint(r)
			if msg == "" {
				msg = "panic"
			}
		}
	}()
	f()
	return ""
}

// inWorld runs body inside a fresh scheduler world in deterministic mode.
func inWorld(body func()) *vsched.Result {
	return vsched.RunOnce(nil, nil, math.MaxInt32, false, func() {
		vsched.BeginSetup()
		body()
	})
}

type wireEnum struct {
	rep      *DirectReport
	deadline time.Time
	classes  map[string]bool
}

func newWireEnum(budget int) *wireEnum {
	return &wireEnum{rep: &DirectReport{Outcomes: map[string]int64{}, Witnesses: map[string]*vsched.Witness{}, Exhaustive: true},
		deadline: time.Now().Add(time.Duration(budget) * time.Second), classes: map[string]bool{}}
}

func (we *wireEnum) fail(sig, detail string) {
	w := we.rep.Witnesses[sig]
	if w == nil {
		w = &vsched.Witness{Signature: sig, Detail: detail}
		we.rep.Witnesses[sig] = w
	}
	w.Count++
}

// wireBatches enumerates all batches of exactly n messages over pools whose first message index
// is congruent to shard mod nshards.
func (we *wireEnum) wireBatches(pools wirePools, n, shard, nshards int) {
	sz := pools.size()
	total := 1
	for i := 0; i < n; i++ {
		total *= sz
	}
	const chunk = 4000
	idx := 0
	for idx < total {
		if time.Now().After(we.deadline) {
			we.rep.Exhaustive = false
			we.rep.Note += fmt.Sprintf(" time cap hit after %d of %d batches of length %d;", idx, total, n)
			return
		}
		end := idx + chunk
		if end > total {
			end = total
		}
		from := idx
		res := inWorld(func() {
			f := newWireFixture()
			b := make([]wireMsg, n)
			for j := from; j < end; j++ {
				x := j
				for k := n - 1; k >= 0; k-- {
					b[k] = pools.msg(x % sz)
					x /= sz
				}
				if nshards > 1 && (j/(total/sz))%nshards != shard {
					continue
				}
				we.rep.Evaluations++
				we.rep.Transitions += int64(n)
				cls := wireClass(b)
				sig, detail := wireRoundTrip(f, b)
				if sig != "" {
					we.fail(sig, detail)
					cls += " -> " + sig
				} else {
					cls += " -> ok"
				}
				if we.rep.Outcomes[cls] == 0 && len(we.rep.Samples) < 6 {
					we.rep.Samples = append(we.rep.Samples, fmt.Sprintf("%v => %s", b, cls))
				}
				we.rep.Outcomes[cls]++
			}
		})
		if len(res.Panics) > 0 {
			we.fail("engine/panic-escaped-on-engine-thread", firstLine(res.Panics[0]))
		}
		idx = end
	}
}

func wireRun(spec func(we *wireEnum, tier string)) func(tier string, budget int) *DirectReport {
	return func(tier string, budget int) *DirectReport {
		we := newWireEnum(budget)
		spec(we, tier)
		we.rep.States = int64(len(we.rep.Outcomes))
		return we.rep
	}
}

// ---------------------------------------------------------------- C16

const (
	tnKnown   = "remote.TestMessage"
	tnUnknown = "no.such.Type"
)

var c16TypeNames = [][]string{{}, {tnKnown}, {tnKnown, tnUnknown}, {""}}
var c16Targets = [][]int{{}, {0}, {0, 1}}
var c16Senders = [][]int{{}, {1}, {1, 2}}
var c16Data = [][]byte{nil, nil, {}} // [0] is replaced by a valid TestMessage encoding, [1] by garbage

func init() {
	b, _ := proto.Marshal(&remote.TestMessage{Data: []byte("ok")})
	c16Data[0] = b
	c16Data[1] = []byte{0xff, 0xff, 0xff, 0x07, 0x01}
}

type c16Msg struct {
	ti, si, ni int32 // target, sender, type name index
	data       int
}

func (m c16Msg) String() string {
	return fmt.Sprintf("{target %d sender %d type %d data %s}", m.ti, m.si, m.ni, []string{"valid", "garbage", "empty"}[m.data])
}

func c16Envelope(tn, tg, sn int, msgs []c16Msg) *remote.Envelope {
	env := &remote.Envelope{TypeNames: append([]string{}, c16TypeNames[tn]...)}
	for _, t := range c16Targets[tg] {
		env.Targets = append(env.Targets, actor.NewPID(wireAddr, wireTargetIDs[t]))
	}
	for _, s := range c16Senders[sn] {
		env.Senders = append(env.Senders, wireSender(s))
	}
	for _, m := range msgs {
		env.Messages = append(env.Messages, &remote.Message{Data: c16Data[m.data], TargetIndex: m.ti, SenderIndex: m.si, TypeNameIndex: m.ni})
	}
	return env
}

// c16Check feeds one frame (bytes) to the real decoder + reader and checks the outcome against
// the reference computed from env (the envelope those bytes decode to). probe: a valid frame is
// sent afterwards and must be delivered (the node is still usable).
func c16Check(f *wireFixture, frame []byte, env *remote.Envelope, desc string) (string, string) {
	return c16CheckPipe(f, &remote.VerifPipe{Frames: [][]byte{frame}}, env, desc)
}

func c16CheckPipe(f *wireFixture, pipe *remote.VerifPipe, env *remote.Envelope, desc string) (string, string) {
	f.log = f.log[:0]
	var rerr error
	if p := catchPanic(func() { rerr = remote.VerifRead(f.e, pipe) }); p != "" {
		return "reader/panic-on-inbound-envelope", fmt.Sprintf("%s: streamReader.Receive panicked: %s", desc, p)
	}
	_ = rerr
	// reference: the fully valid messages, in order
	type ref struct {
		target string
		sender *actor.PID
		anySnd bool
	}
	var valid []ref
	firstBad := -1
	for _, m := range env.Messages {
		ok := m != nil
		var r ref
		if ok {
			ok = m.TypeNameIndex >= 0 && int(m.TypeNameIndex) < len(env.TypeNames) && env.TypeNames[m.TypeNameIndex] == tnKnown
		}
		if ok {
			var tm remote.TestMessage
			ok = proto.Unmarshal(m.Data, &tm) == nil
		}
		if ok {
			ok = m.TargetIndex >= 0 && int(m.TargetIndex) < len(env.Targets) && env.Targets[m.TargetIndex] != nil
		}
		if ok {
			r.target = env.Targets[m.TargetIndex].ID
			registered := false
			for _, id := range wireTargetIDs {
				registered = registered || id == r.target
			}
			if !registered {
				continue // valid, but addressed to a PID nobody is registered under: a dead letter, no delivery
			}
			if len(env.Senders) > 0 {
				if m.SenderIndex >= 0 && int(m.SenderIndex) < len(env.Senders) {
					r.sender = env.Senders[m.SenderIndex]
				} else {
					// an out-of-range sender index with otherwise valid indices: the message may be
					// rejected or delivered without sender, but never with somebody else's
					r.anySnd = true
				}
			}
		}
		if !ok {
			if firstBad < 0 {
				firstBad = len(valid)
			}
			continue
		}
		if r.anySnd && firstBad < 0 {
			firstBad = len(valid) // the reader may also reject it and end the stream here
		}
		valid = append(valid, r)
	}
	// deliveries must be an order-preserving subsequence of valid and must contain everything in
	// front of the first bad message (bad input may end the stream, it must not eat good messages
	// that preceded it)
	vi := 0
	matched := 0
	for _, d := range f.log {
		found := false
		for vi < len(valid) {
			r := valid[vi]
			vi++
			if r.target != d.target {
				continue
			}
			if _, isTM := d.msg.(*remote.TestMessage); !isTM {
				continue
			}
			if r.anySnd {
				if d.sender != nil {
					continue
				}
			} else if (r.sender == nil) != (d.sender == nil) || (r.sender != nil && !r.sender.Equals(d.sender)) {
				continue
			}
			found = true
			matched = vi
			break
		}
		if !found {
			return "reader/delivery-not-named-by-valid-indices", fmt.Sprintf("%s: delivered %s which no message with valid indices names (deliveries: %s)", desc, wireDeliveries([]wireDelivery{d}), wireDeliveries(f.log))
		}
	}
	_ = matched
	need := len(valid)
	if firstBad >= 0 {
		need = firstBad
	}
	strict := 0
	for _, r := range valid[:need] {
		if !r.anySnd {
			strict++
		}
	}
	if len(f.log) < strict {
		return "reader/valid-message-in-front-of-bad-one-not-delivered", fmt.Sprintf("%s: %d deliveries, but %d valid messages precede the first invalid one", desc, len(f.log), need)
	}
	return "", ""
}

func c16Probe(f *wireFixture) (string, string) {
	env := c16Envelope(1, 1, 1, []c16Msg{{0, 0, 0, 0}})
	b, _ := env.MarshalVT()
	f.log = f.log[:0]
	pipe := &remote.VerifPipe{Frames: [][]byte{b}}
	if p := catchPanic(func() { remote.VerifRead(f.e, pipe) }); p != "" || len(f.log) != 1 {
		return "reader/node-unusable-after-bad-input", fmt.Sprintf("probe envelope after the bad inputs: panic=%q deliveries=%d", p, len(f.log))
	}
	return "", ""
}

// c16Infra: envelopes whose targets name the node's own infrastructure processes - the stream writer it
// keeps per peer ("stream/<peer address>", a PID any peer can compute), the event stream - next to an
// application actor and an unregistered id. Nothing may panic (reader or the addressed process's own
// goroutine), the application actor receives exactly what names it, and nothing inbound leaves the node
// again through the writer.
func (we *wireEnum) c16Infra() {
	const peer = "10.0.0.9:4000"
	res := inWorld(func() {
		f := newWireFixture()
		out := &remote.VerifPipe{}
		wpid := remote.VerifInstallWriter(f.e, peer, out)
		dpid := remote.VerifInstallDialingWriter(f.e, "10.0.0.8:4000") // a writer whose first dial is still being retried: no stream yet
		vsched.Quiesce()
		targets := []*actor.PID{wpid, actor.NewPID(wireAddr, "stream/"+peer), actor.NewPID(wireAddr, wireTargetIDs[0]), actor.NewPID(wireAddr, "nobody/1"), dpid}
		names := []string{"writer", "writer(by name)", "app", "unregistered", "writer-still-dialling"}
		type im struct{ t, s, d int }
		var one []im
		for t := range targets {
			for s := 0; s < 3; s++ {
				for d := 0; d < 2; d++ {
					one = append(one, im{t, s, d})
				}
			}
		}
		run := func(msgs []im) {
			env := &remote.Envelope{TypeNames: []string{tnKnown}, Targets: targets, Senders: []*actor.PID{wireSender(1), actor.NewPID(wireAddr, "stream/"+peer)}}
			wantApp := 0
			desc := "envelope"
			for _, m := range msgs {
				si := int32(m.s)
				if m.s == 2 {
					si = -1 // out of range
				}
				env.Messages = append(env.Messages, &remote.Message{Data: c16Data[[]int{0, 2}[m.d]], TargetIndex: int32(m.t), SenderIndex: si, TypeNameIndex: 0})
				desc += fmt.Sprintf(" {target %s sender %d data %d}", names[m.t], m.s, m.d)
			}
			// reference: messages in front of the first one with the out-of-range sender index reach the app actor
			for _, m := range msgs {
				if m.s == 2 {
					break
				}
				if m.t == 2 {
					wantApp++
				}
			}
			mustApp := wantApp
			mayApp := 0
			for _, m := range msgs {
				if m.t == 2 {
					mayApp++
				}
			}
			frame, _ := env.MarshalVT()
			f.log = f.log[:0]
			sent := len(out.Frames)
			we.rep.Evaluations++
			we.rep.Transitions += int64(len(msgs))
			sig, detail := "", ""
			if p := catchPanic(func() { remote.VerifRead(f.e, &remote.VerifPipe{Frames: [][]byte{frame}}) }); p != "" {
				sig, detail = "reader/panic-on-inbound-envelope", desc+": "+p
			}
			vsched.Quiesce()
			if sig == "" && (len(f.log) < mustApp || len(f.log) > mayApp) {
				sig, detail = "reader/wrong-deliveries-to-application-actor", fmt.Sprintf("%s: application actor received %d messages, want %d..%d", desc, len(f.log), mustApp, mayApp)
			}
			if sig == "" && len(out.Frames) != sent {
				for _, fr := range out.Frames[sent:] {
					e2 := &remote.Envelope{}
					if e2.UnmarshalVT(fr) == nil && len(e2.Messages) > 0 {
						sig, detail = "writer/inbound-message-sent-out-again", fmt.Sprintf("%s: the node's stream writer to %s wrote an envelope with %d messages", desc, peer, len(e2.Messages))
					}
				}
			}
			if sig != "" {
				we.fail(sig, detail)
			}
			cls := fmt.Sprintf("infra msgs%d -> %s", len(msgs), map[bool]string{true: "ok", false: sig}[sig == ""])
			if we.rep.Outcomes[cls] == 0 && len(we.rep.Samples) < 6 {
				we.rep.Samples = append(we.rep.Samples, desc+" => "+cls)
			}
			we.rep.Outcomes[cls]++
		}
		for _, m := range one {
			run([]im{m})
		}
		for _, m1 := range one {
			for _, m2 := range one {
				run([]im{m1, m2})
			}
		}
		// the writer still does its job: an outbound delivery is written to the pipe
		sent := len(out.Frames)
		f.e.SendLocal(wpid, nil, nil) // a nil message for good measure
		vsched.Quiesce()
		env := remote.VerifDeliver(actor.NewPID(peer, "x/1"), nil, &remote.TestMessage{Data: []byte("out")})
		f.e.SendLocal(wpid, env.Msg, nil)
		vsched.Quiesce()
		nout := 0
		for _, fr := range out.Frames[sent:] {
			e2 := &remote.Envelope{}
			if e2.UnmarshalVT(fr) == nil {
				nout += len(e2.Messages)
			}
		}
		if nout != 1 {
			we.fail("writer/unusable-after-hostile-input", fmt.Sprintf("after the hostile envelopes one outbound delivery put %d messages on the wire, want 1", nout))
		}
		if sig, detail := c16Probe(f); sig != "" {
			we.fail(sig, detail)
		}
	})
	if len(res.Panics) > 0 {
		we.fail("engine/panic-escaped-on-engine-thread", firstLine(res.Panics[0]))
	}
}

func c16Class(tn, tg, sn int, msgs []c16Msg, sig string) string {
	bad := 0
	for _, m := range msgs {
		if m.ti < 0 || int(m.ti) >= len(c16Targets[tg]) || m.ni < 0 || int(m.ni) >= len(c16TypeNames[tn]) || (len(c16Senders[sn]) > 0 && (m.si < 0 || int(m.si) >= len(c16Senders[sn]))) {
			bad++
		}
	}
	if sig == "" {
		sig = "ok"
	}
	return fmt.Sprintf("types%d targets%d senders%d msgs%d out-of-range-msgs%d -> %s", len(c16TypeNames[tn]), len(c16Targets[tg]), len(c16Senders[sn]), len(msgs), bad, sig)
}

func (we *wireEnum) c16Structured(idx []int32, datas []int, nmsgs int) {
	var one []c16Msg
	for _, a := range idx {
		for _, b := range idx {
			for _, c := range idx {
				for _, d := range datas {
					one = append(one, c16Msg{a, b, c, d})
				}
			}
		}
	}
	for tn := range c16TypeNames {
		for tg := range c16Targets {
			for sn := range c16Senders {
				if time.Now().After(we.deadline) {
					we.rep.Exhaustive = false
					we.rep.Note += " time cap hit in structured envelopes;"
					return
				}
				tn, tg, sn := tn, tg, sn
				res := inWorld(func() {
					f := newWireFixture()
					run := func(msgs []c16Msg) {
						env := c16Envelope(tn, tg, sn, msgs)
						frame, err := env.MarshalVT()
						if err != nil {
							return
						}
						// the reference is computed from what the bytes decode to
						dec := &remote.Envelope{}
						if dec.UnmarshalVT(frame) != nil {
							dec = env
						}
						we.rep.Evaluations++
						we.rep.Transitions += int64(len(msgs))
						desc := fmt.Sprintf("envelope typeNames=%q targets=%d senders=%d messages=%v", c16TypeNames[tn], len(c16Targets[tg]), len(c16Senders[sn]), msgs)
						sig, detail := c16Check(f, frame, dec, desc)
						if sig != "" {
							we.fail(sig, detail)
						}
						cls := c16Class(tn, tg, sn, msgs, sig)
						if we.rep.Outcomes[cls] == 0 && len(we.rep.Samples) < 6 {
							we.rep.Samples = append(we.rep.Samples, desc+" => "+cls)
						}
						we.rep.Outcomes[cls]++
					}
					switch nmsgs {
					case 0:
						run(nil)
					case 1:
						for _, m := range one {
							run([]c16Msg{m})
						}
					case 2:
						for _, m1 := range one {
							for _, m2 := range one {
								run([]c16Msg{m1, m2})
							}
						}
					}
					if sig, detail := c16Probe(f); sig != "" {
						we.fail(sig, detail)
					}
				})
				if len(res.Panics) > 0 {
					we.fail("engine/panic-escaped-on-engine-thread", firstLine(res.Panics[0]))
				}
			}
		}
	}
}

// c16Bytes: byte-level mutations of seed encodings.
func (we *wireEnum) c16Bytes() {
	var seeds [][]byte
	add := func(env *remote.Envelope) {
		b, err := env.MarshalVT()
		if err == nil {
			seeds = append(seeds, b)
		}
	}
	add(c16Envelope(1, 1, 0, []c16Msg{{0, 0, 0, 0}}))
	add(c16Envelope(1, 2, 2, []c16Msg{{1, 1, 0, 0}, {0, 0, 0, 0}}))
	add(c16Envelope(2, 2, 1, []c16Msg{{0, 0, 0, 0}, {1, 0, 0, 2}}))
	add(c16Envelope(1, 1, 1, []c16Msg{{0, 0, 0, 2}}))
	add(c16Envelope(1, 2, 2, []c16Msg{{1, 1, 0, 0}, {1, 0, 0, 0}, {0, 1, 0, 0}}))
	add(c16Envelope(0, 0, 0, nil))
	add(c16Envelope(1, 1, 1, nil))
	for si, seed := range seeds {
		if time.Now().After(we.deadline) {
			we.rep.Exhaustive = false
			we.rep.Note += " time cap hit in byte mutations;"
			return
		}
		var muts [][]byte
		for i := 0; i < len(seed); i++ {
			muts = append(muts, append([]byte{}, seed[:i]...)) // proper prefix
			del := append(append([]byte{}, seed[:i]...), seed[i+1:]...)
			muts = append(muts, del)
			for _, v := range []byte{0x00, 0x01, 0x7f, 0x80, 0xff, seed[i] + 1, seed[i] - 1} {
				if v == seed[i] {
					continue
				}
				m := append([]byte{}, seed...)
				m[i] = v
				muts = append(muts, m)
			}
		}
		muts = append(muts, seed)
		si := si
		res := inWorld(func() {
			f := newWireFixture()
			for _, frame := range muts {
				dec := &remote.Envelope{}
				derr := dec.UnmarshalVT(frame)
				we.rep.Evaluations++
				we.rep.Transitions++
				desc := fmt.Sprintf("seed %d mutated to % x", si, frame)
				cls := "bytes: rejected by decoder"
				if derr == nil {
					sig, detail := c16RefDecode(frame, dec, desc)
					if sig == "" {
						sig, detail = c16Check(f, frame, dec, desc)
					}
					if sig != "" {
						we.fail(sig, detail)
						cls = "bytes: decoded -> " + sig
					} else {
						cls = fmt.Sprintf("bytes: decoded (%d msgs) -> ok", len(dec.Messages))
					}
				} else {
					// the reader must return the decode error, not panic
					pipe := &remote.VerifPipe{Frames: [][]byte{frame}}
					if p := catchPanic(func() { remote.VerifRead(f.e, pipe) }); p != "" {
						we.fail("reader/panic-on-undecodable-bytes", desc+": "+p)
					}
				}
				if we.rep.Outcomes[cls] == 0 && len(we.rep.Samples) < 8 {
					we.rep.Samples = append(we.rep.Samples, desc+" => "+cls)
				}
				we.rep.Outcomes[cls]++
			}
			if sig, detail := c16Probe(f); sig != "" {
				we.fail(sig, detail)
			}
		})
		if len(res.Panics) > 0 {
			we.fail("engine/panic-escaped-on-engine-thread", firstLine(res.Panics[0]))
		}
	}
}

// c16RefDecode: what the generated fast decoder (UnmarshalVT) made of a frame must be what the reference
// protobuf decoder makes of it: same accept/reject verdict is NOT demanded (the fast decoder may be stricter
// or laxer about malformed input), but when both accept, the envelopes must be equal - in particular the
// three indices of every message ("last occurrence of a scalar field wins").
func c16RefDecode(frame []byte, dec *remote.Envelope, desc string) (string, string) {
	ref := &remote.Envelope{}
	if err := (proto.UnmarshalOptions{AllowPartial: true}).Unmarshal(frame, ref); err != nil {
		return "", ""
	}
	if len(ref.Messages) != len(dec.Messages) || len(ref.Targets) != len(dec.Targets) || len(ref.Senders) != len(dec.Senders) || fmt.Sprint(ref.TypeNames) != fmt.Sprint(dec.TypeNames) {
		return "decoder/differs-from-reference-decoder", fmt.Sprintf("%s: tables decoded as %d/%d/%d/%v, the reference decoder reads %d/%d/%d/%v (messages/targets/senders/type names)", desc, len(dec.Messages), len(dec.Targets), len(dec.Senders), dec.TypeNames, len(ref.Messages), len(ref.Targets), len(ref.Senders), ref.TypeNames)
	}
	for i, m := range dec.Messages {
		r := ref.Messages[i]
		if m.TargetIndex != r.TargetIndex || m.SenderIndex != r.SenderIndex || m.TypeNameIndex != r.TypeNameIndex || string(m.Data) != string(r.Data) {
			return "decoder/differs-from-reference-decoder", fmt.Sprintf("%s: message %d decoded as {target %d sender %d type %d data %x}, the reference decoder reads {target %d sender %d type %d data %x}", desc, i, m.TargetIndex, m.SenderIndex, m.TypeNameIndex, m.Data, r.TargetIndex, r.SenderIndex, r.TypeNameIndex, r.Data)
		}
	}
	for i, t := range dec.Targets {
		if pidStr(t) != pidStr(ref.Targets[i]) {
			return "decoder/differs-from-reference-decoder", fmt.Sprintf("%s: target %d decoded as %s, the reference decoder reads %s", desc, i, pidStr(t), pidStr(ref.Targets[i]))
		}
	}
	for i, t := range dec.Senders {
		if pidStr(t) != pidStr(ref.Senders[i]) {
			return "decoder/differs-from-reference-decoder", fmt.Sprintf("%s: sender %d decoded as %s, the reference decoder reads %s", desc, i, pidStr(t), pidStr(ref.Senders[i]))
		}
	}
	return "", ""
}

// c16Unknown: frames that carry fields the schema does not know - every wire type (varint, 64-bit, bytes,
// start/end group, 32-bit, the two invalid ones), lengths 0 / short / truncated / 2^63-1 / overflowing,
// groups closed, unclosed and nested - in front of, behind and inside (Message, PID) an otherwise valid
// envelope. The decoder may accept or reject a frame; nothing may panic or hang, what it accepts is
// checked like any other envelope, and the node stays usable.
func (we *wireEnum) c16Unknown() {
	huge := []byte{0xff, 0xff, 0xff, 0xff, 0xff, 0xff, 0xff, 0xff, 0x7f}  // 2^63-1
	over := []byte{0xff, 0xff, 0xff, 0xff, 0xff, 0xff, 0xff, 0xff, 0xff, 0x01} // 2^64-1: negative as int
	cat := func(bs ...[]byte) []byte {
		var o []byte
		for _, b := range bs {
			o = append(o, b...)
		}
		return o
	}
	// unknown field number 15: tags 0x78..0x7f
	var atoms [][]byte
	atoms = append(atoms, []byte{0x78, 0x01}, cat([]byte{0x78}, over), []byte{0x78}) // varint, 10-byte varint, truncated
	atoms = append(atoms, []byte{0x79, 1, 2, 3, 4, 5, 6, 7, 8}, []byte{0x79, 1, 2})     // fixed64, truncated
	atoms = append(atoms, []byte{0x7d, 1, 2, 3, 4}, []byte{0x7d, 1})                    // fixed32, truncated
	for _, l := range [][]byte{{0}, {1, 0x41}, {5, 0x41}, huge, over} {
		atoms = append(atoms, cat([]byte{0x7a}, l)) // length-delimited
	}
	atoms = append(atoms, []byte{0x7c}, []byte{0x7e}, []byte{0x7f, 0x00}) // stray end group, invalid wire types
	n := len(atoms)
	for i := 0; i < n; i++ { // groups around every atom: closed, unclosed, nested twice
		atoms = append(atoms, cat([]byte{0x7b}, atoms[i], []byte{0x7c}), cat([]byte{0x7b}, atoms[i]), cat([]byte{0x7b, 0x7b}, atoms[i], []byte{0x7c, 0x7c}))
	}
	atoms = append(atoms, []byte{0x7b, 0x7c}, []byte{0x7b}, []byte{0x7b, 0x7b, 0x7c})
	tm := c16Data[0]
	msg := &remote.Message{Data: tm, TargetIndex: 0, SenderIndex: 0, TypeNameIndex: 0}
	mb, _ := msg.MarshalVT()
	head := &remote.Envelope{TypeNames: []string{tnKnown}, Targets: []*actor.PID{actor.NewPID(wireAddr, wireTargetIDs[0])}, Senders: []*actor.PID{wireSender(1)}}
	hb, _ := head.MarshalVT()
	pidb, _ := actor.NewPID(wireAddr, wireTargetIDs[1]).MarshalVT()
	lenPrefixed := func(tag byte, body []byte) []byte {
		if len(body) > 127 {
			panic("c16Unknown: body too long for a one-byte length")
		}
		return cat([]byte{tag, byte(len(body))}, body)
	}
	full := cat(hb, lenPrefixed(0x22, mb))
	var frames [][]byte
	var descs []string
	for ai, a := range atoms {
		frames = append(frames, cat(a, full), cat(full, a), cat(hb, a, lenPrefixed(0x22, mb)), cat(hb, lenPrefixed(0x22, cat(mb, a))), cat(hb, lenPrefixed(0x22, cat(a, mb))), cat(hb, lenPrefixed(0x12, cat(pidb, a)), lenPrefixed(0x22, mb)))
		for _, w := range []string{"in front of", "behind", "inside, before the message of", "at the end of the Message of", "at the start of the Message of", "inside a target PID of"} {
			descs = append(descs, fmt.Sprintf("unknown-field bytes #%d (% x) %s a valid envelope", ai, a, w))
		}
	}
	// known scalar fields that occur twice in one Message (legal protobuf: the last occurrence wins)
	head2 := &remote.Envelope{TypeNames: []string{tnKnown, tnUnknown}, Targets: []*actor.PID{actor.NewPID(wireAddr, wireTargetIDs[0]), actor.NewPID(wireAddr, wireTargetIDs[1])}, Senders: []*actor.PID{wireSender(1), wireSender(2)}}
	h2, _ := head2.MarshalVT()
	for _, tag := range []byte{0x10, 0x18, 0x20} { // targetIndex, senderIndex, typeNameIndex
		for _, first := range []byte{0, 1, 2, 3} {
			for _, second := range []byte{0, 1} {
				body := cat([]byte{0x0a, byte(len(tm))}, tm, []byte{tag, first, tag, second})
				frames = append(frames, cat(h2, lenPrefixed(0x22, body)))
				descs = append(descs, fmt.Sprintf("a Message whose field with tag %#x occurs twice (%d, then %d)", tag, first, second))
			}
		}
	}
	res := inWorld(func() {
		f := newWireFixture()
		for i, frame := range frames {
			if time.Now().After(we.deadline) {
				we.rep.Exhaustive = false
				we.rep.Note += " time cap hit in unknown-field frames;"
				return
			}
			we.rep.Evaluations++
			we.rep.Transitions++
			dec := &remote.Envelope{}
			var derr error
			cls := ""
			if p := catchPanic(func() { derr = dec.UnmarshalVT(frame) }); p != "" {
				we.fail("decoder/panic-on-hostile-bytes", descs[i]+": "+p)
				cls = "unknown: decoder panicked"
			} else if derr == nil {
				sig, detail := c16RefDecode(frame, dec, descs[i])
				if sig == "" {
					sig, detail = c16Check(f, frame, dec, descs[i])
				}
				if sig != "" {
					we.fail(sig, detail)
					cls = "unknown: decoded -> " + sig
				} else {
					cls = fmt.Sprintf("unknown: decoded (%d msgs) -> ok", len(dec.Messages))
				}
			} else {
				cls = "unknown: rejected by decoder"
				if p := catchPanic(func() { remote.VerifRead(f.e, &remote.VerifPipe{Frames: [][]byte{frame}}) }); p != "" {
					we.fail("reader/panic-on-undecodable-bytes", descs[i]+": "+p)
				}
			}
			if we.rep.Outcomes[cls] == 0 && len(we.rep.Samples) < 8 {
				we.rep.Samples = append(we.rep.Samples, descs[i]+" => "+cls)
			}
			we.rep.Outcomes[cls]++
		}
		if sig, detail := c16Probe(f); sig != "" {
			we.fail(sig, detail)
		}
	})
	if len(res.Panics) > 0 {
		we.fail("engine/panic-escaped-on-engine-thread", firstLine(res.Panics[0]))
	}
}

// c16Values: Envelope VALUES that no byte string decodes to - nil entries in the target, sender and message
// tables - handed to the real streamReader.Receive directly (the quantifier of C16 is over all Envelope
// values, whatever encoding produced them).
func (we *wireEnum) c16Values() {
	t0, t1 := actor.NewPID(wireAddr, wireTargetIDs[0]), actor.NewPID(wireAddr, wireTargetIDs[1])
	s1 := wireSender(1)
	targetTabs := [][]*actor.PID{{t0}, {nil}, {t0, nil}, {nil, t1}}
	senderTabs := [][]*actor.PID{{}, {s1}, {nil}, {s1, nil}, {nil, s1}}
	mk := func(ti, si int32) *remote.Message {
		return &remote.Message{Data: c16Data[0], TargetIndex: ti, SenderIndex: si, TypeNameIndex: 0}
	}
	var msgTabs [][]*remote.Message
	for ti := int32(0); ti < 2; ti++ {
		for si := int32(0); si < 2; si++ {
			msgTabs = append(msgTabs, []*remote.Message{mk(ti, si)}, []*remote.Message{mk(0, 0), mk(ti, si)}, []*remote.Message{mk(ti, si), mk(0, 0)}, []*remote.Message{nil, mk(ti, si)}, []*remote.Message{mk(ti, si), nil})
		}
	}
	msgTabs = append(msgTabs, []*remote.Message{nil}, []*remote.Message{})
	res := inWorld(func() {
		f := newWireFixture()
		for tti, tt := range targetTabs {
			for sti, st := range senderTabs {
				for mti, mt := range msgTabs {
					for _, tn := range [][]string{{tnKnown}, nil} {
						env := &remote.Envelope{TypeNames: tn, Targets: tt, Senders: st, Messages: mt}
						desc := fmt.Sprintf("envelope value: typeNames=%v target table #%d %v sender table #%d %v messages #%d", tn, tti, tt, sti, st, mti)
						we.rep.Evaluations++
						we.rep.Transitions += int64(len(mt))
						sig, detail := c16CheckPipe(f, &remote.VerifPipe{Values: []*remote.Envelope{env}}, env, desc)
						if sig != "" {
							we.fail(sig, detail)
						}
						cls := fmt.Sprintf("values: targets#%d senders#%d msgs%d types%d -> %s", tti, sti, len(mt), len(tn), map[bool]string{true: "ok", false: sig}[sig == ""])
						if we.rep.Outcomes[cls] == 0 && len(we.rep.Samples) < 6 {
							we.rep.Samples = append(we.rep.Samples, desc+" => "+cls)
						}
						we.rep.Outcomes[cls]++
					}
				}
			}
		}
		if sig, detail := c16Probe(f); sig != "" {
			we.fail(sig, detail)
		}
	})
	if len(res.Panics) > 0 {
		we.fail("engine/panic-escaped-on-engine-thread", firstLine(res.Panics[0]))
	}
}

func init() {
	_ = sort.Strings
	// ---- C15
	Register(&Job{Name: "C15/wire/len1-2-full", Prop: "C15", Kind: "direct", Budget: 50, BudgetT: 300,
		Desc: "all batches of length 1 and 2 over 3 targets x 6 senders (nil, S1, S2, S1' equal value/other object, the pair (ab,c)/(a,bc)) x 7 payloads (3 registered types incl. an empty message, a Marshal error, a non-proto value): 126 + 15876 batches",
		Run: wireRun(func(we *wireEnum, tier string) { we.wireBatches(wireFull, 1, 0, 1); we.wireBatches(wireFull, 2, 0, 1) })})
	Register(&Job{Name: "C15/wire/len3-reduced", Prop: "C15", Kind: "direct", Budget: 50, BudgetT: 300,
		Desc: "all batches of length 3 over 2 targets x 5 senders x 5 payloads (125000 batches)",
		Run: wireRun(func(we *wireEnum, tier string) { we.wireBatches(wireReduced, 3, 0, 1) })})
	Register(&Job{Name: "C15/wire/len4-tiny", Prop: "C15", Kind: "direct", Budget: 50, BudgetT: 300,
		Desc: "all batches of length 4 over 2 targets x 3 senders x 3 payloads (104976 batches)",
		Run: wireRun(func(we *wireEnum, tier string) { we.wireBatches(wireTiny, 4, 0, 1) })})
	Register(&Job{Name: "C15/wire/dynamic-types", Prop: "C15", Kind: "direct", Budget: 50, BudgetT: 300,
		Desc: "all batches of length 1-3 over 2 targets x 2 senders x {TestMessage, two message types that exist only as descriptors (dynamicpb: one Go type, two protobuf types)}: each arrives as the type it was sent as",
		Run: wireRun(func(we *wireEnum, tier string) {
			we.wireBatches(wireDyn, 1, 0, 1)
			we.wireBatches(wireDyn, 2, 0, 1)
			we.wireBatches(wireDyn, 3, 0, 1)
		})})
	for sh := 0; sh < 14; sh++ {
		sh := sh
		Register(&Job{Name: fmt.Sprintf("C15/wire/len3-full-shard%02d", sh), Prop: "C15", Kind: "direct", Tier: "thorough", Budget: 50, BudgetT: 900,
			Desc: "all batches of length 3 over the full pools (2000376 batches, sharded 14 ways on the first message)",
			Run: wireRun(func(we *wireEnum, tier string) { we.wireBatches(wireFull, 3, sh, 14) })})
	}
	Register(&Job{Name: "C15/wire/len4-reduced", Prop: "C15", Kind: "direct", Tier: "thorough", Budget: 50, BudgetT: 900,
		Desc: "all batches of length 4 over 2 targets x 5 senders x 5 payloads (6250000 batches), as far as the budget allows",
		Run: wireRun(func(we *wireEnum, tier string) { we.wireBatches(wireReduced, 4, 0, 1) })})
	// ---- C16
	full := []int32{-1, 0, 1, 2, math.MaxInt32, math.MinInt32}
	mid := []int32{-1, 0, 1, math.MaxInt32}
	small := []int32{-1, 0, 1}
	Register(&Job{Name: "C16/envelopes/one-message-full-indices", Prop: "C16", Kind: "direct", Budget: 50, BudgetT: 300,
		Desc: "4 type-name tables x 3 target tables x 3 sender tables x (0 or 1 message with each of its three indices in {-1,0,1,2,MaxInt32,MinInt32} and data in {valid, garbage, empty}), encoded with MarshalVT and fed through UnmarshalVT + streamReader.Receive",
		Run: wireRun(func(we *wireEnum, tier string) {
			we.c16Structured(full, []int{0, 1, 2}, 0)
			we.c16Structured(full, []int{0, 1, 2}, 1)
		})})
	Register(&Job{Name: "C16/envelopes/two-messages", Prop: "C16", Kind: "direct", Budget: 50, BudgetT: 600,
		Desc: "same tables, two messages, each index in {-1,0,1} (quick) / {-1,0,1,MaxInt32} (thorough), data in {valid, garbage} (quick) / {valid, garbage, empty} (thorough)",
		Run: wireRun(func(we *wireEnum, tier string) {
			if tier == "thorough" {
				we.c16Structured(mid, []int{0, 1, 2}, 2)
			} else {
				we.c16Structured(small, []int{0, 1}, 2)
			}
		})})
	Register(&Job{Name: "C16/envelopes/infrastructure-targets", Prop: "C16", Kind: "direct", Family: "regression:D27 (fixed)", Budget: 50, BudgetT: 300,
		Desc: "envelopes of 1-2 valid messages (valid/empty payload, sender valid / the writer itself / out of range) addressed to the node's own stream writer for the sending peer (registered as stream/<peer>, real streamWriter behind its real inbox), to a stream writer whose first dial is still being retried (registered, inbox open, no connection yet), to an application actor and to an unregistered id: no panic in the reader or on the writer's goroutine, the application actor gets what names it, nothing inbound is written out again, the writer still works afterwards",
		Run: wireRun(func(we *wireEnum, tier string) { we.c16Infra() })})
	Register(&Job{Name: "C16/envelopes/values-with-nil-entries", Prop: "C16", Kind: "direct", Budget: 50, BudgetT: 300,
		Desc: "Envelope values that no byte string decodes to: nil entries in the target table, the sender table and the message list (4 x 5 x 22 tables, with and without type names), handed to streamReader.Receive directly: no panic, deliveries only as named by valid indices, node usable afterwards",
		Run: wireRun(func(we *wireEnum, tier string) { we.c16Values() })})
	Register(&Job{Name: "C16/bytes/unknown-fields", Prop: "C16", Kind: "direct", Budget: 50, BudgetT: 300,
		Desc: "fields the schema does not know, of every wire type (varint, 64-bit, bytes with length 0/1/truncated/2^63-1/overflowing, start and end group, 32-bit, the two invalid types), bare, inside a closed, an unclosed and a doubly nested group, placed in front of, behind and inside (Envelope, Message, PID) a valid envelope, and Messages whose index fields occur twice (last one wins): the decoder neither panics nor hangs, what it accepts equals what the reference protobuf decoder reads and is checked like any envelope, the node stays usable",
		Run: wireRun(func(we *wireEnum, tier string) { we.c16Unknown() })})
	Register(&Job{Name: "C16/bytes/mutations", Prop: "C16", Kind: "direct", Budget: 50, BudgetT: 300,
		Desc: "7 seed encodings: every proper prefix, every single-byte deletion, every single-byte substitution from {00,01,7f,80,ff,b+1,b-1} at every offset; whatever UnmarshalVT accepts goes on to streamReader.Receive",
		Run: wireRun(func(we *wireEnum, tier string) { we.c16Bytes() })})
}

// ---------------------------------------------------------------- C16: concurrent inbound streams

// wireConcStreams: nthreads drpc handler threads run streamReader.Receive at the same time, each
// on its own stream carrying messages of its own type for its own target. Whatever the
// interleaving, every message must arrive with the type its indices name.
func wireConcStreams(nthreads, perStream int) vsched.Instance {
	var f *wireFixture
	var errs []string
	body := func() {
		vsched.BeginSetup()
		f = newWireFixture()
		// warm-up: one well-formed envelope through the reader, so that whatever the decoding path
		// remembers between calls (package-level caches) is in the same state at the start of
		// every execution and executions stay independent of each other
		{
			data, _ := proto.Marshal(&remote.TestMessage{Data: []byte("warm-up")})
			env := &remote.Envelope{TypeNames: []string{"remote.TestMessage"}, Targets: []*actor.PID{actor.NewPID(wireAddr, "nobody/1")}, Messages: []*remote.Message{{Data: data}}}
			b, _ := env.MarshalVT()
			remote.VerifRead(f.e, &remote.VerifPipe{Frames: [][]byte{b}})
		}
		vsched.EndSetup()
		f.log = f.log[:0]
		for t := 0; t < nthreads; t++ {
			t := t
			vsched.Go("drpc-handler", func() {
				pipe := &remote.VerifPipe{}
				for i := 0; i < perStream; i++ {
					var payload proto.Message
					var tname string
					if t%2 == 0 {
						payload, tname = &remote.TestMessage{Data: []byte(fmt.Sprintf("%d.%d", t, i))}, "remote.TestMessage"
					} else {
						payload, tname = &actor.PID{Address: "x", ID: fmt.Sprintf("%d.%d", t, i)}, "actor.PID"
					}
					data, _ := proto.Marshal(payload)
					env := &remote.Envelope{TypeNames: []string{tname}, Targets: []*actor.PID{actor.NewPID(wireAddr, wireTargetIDs[t%len(wireTargetIDs)])},
						Messages: []*remote.Message{{Data: data}}}
					b, _ := env.MarshalVT()
					pipe.Frames = append(pipe.Frames, b)
				}
				if p := catchPanic(func() {
					if err := remote.VerifRead(f.e, pipe); err != nil {
						vsched.Touch("errs")
						errs = append(errs, fmt.Sprintf("stream %d: Receive returned %v", t, err))
					}
				}); p != "" {
					vsched.Touch("errs")
					errs = append(errs, fmt.Sprintf("stream %d: Receive panicked: %s", t, p))
				}
			})
		}
		vsched.Quiesce()
	}
	check := func(r *vsched.Result) []vsched.Violation {
		vs := stdEnd(r)
		if len(vs) > 0 {
			return vs
		}
		for _, e := range errs {
			vs = append(vs, V("reader/well-formed-stream-ends-with-error-or-panic", "%s", e))
		}
		cnt := map[string]int{}
		for _, d := range f.log {
			cnt[d.target]++
			var t int
			for i, id := range wireTargetIDs {
				if id == d.target {
					t = i
				}
			}
			_, isTM := d.msg.(*remote.TestMessage)
			_, isPID := d.msg.(*actor.PID)
			if (t%2 == 0 && !isTM) || (t%2 == 1 && !isPID) {
				vs = append(vs, V("reader/message-delivered-with-a-type-its-indices-do-not-name", "target %s received %T%v (deliveries: %s)", d.target, d.msg, d.msg, wireDeliveries(f.log)))
			}
		}
		for t := 0; t < nthreads; t++ {
			if c := cnt[wireTargetIDs[t%len(wireTargetIDs)]]; c != perStream && len(errs) == 0 {
				vs = append(vs, V("reader/valid-message-not-delivered", "target %s received %d of %d messages", wireTargetIDs[t], c, perStream))
			}
		}
		return vs
	}
	outcome := func() string {
		if f == nil {
			return ""
		}
		return wireDeliveries(f.log)
	}
	return vsched.Instance{Body: body, Check: check, Outcome: outcome}
}

func init() {
	Register(&Job{Name: "C16/streams/two-concurrent", Prop: "C16", Bound: 2, BoundT: 3, Budget: 40, BudgetT: 600,
		Desc: "two inbound streams handled concurrently by streamReader.Receive (as two drpc handler goroutines would), 2 well-formed envelopes each, stream 1 carrying remote.TestMessage for t/1 and stream 2 actor.PID for t/2: every message arrives with the type and at the target its own indices name, whatever the interleaving",
		Make: func() vsched.Instance { return wireConcStreams(2, 2) }})
	Register(&Job{Name: "C16/streams/three-concurrent", Prop: "C16", Tier: "thorough", Bound: 2, BoundT: 3, Budget: 40, BudgetT: 600,
		Desc: "three concurrent inbound streams x 2 envelopes", Make: func() vsched.Instance { return wireConcStreams(3, 2) }})
}

// ---------------------------------------------------------------- C15: adversarial PIDs, several batches per connection

var longPrefix = strings.Repeat("region-eu-west-1/cluster-7/shard-12/", 4) // 144 bytes

// advSenders: pairs of different PIDs that are easy to confuse: the same concatenation split at
// another place (around "/", ":" and NUL, the candidates for a separator), PIDs longer than any
// small fixed buffer that differ only at the very end, and a PID that is a prefix of another.
var advSenders = []*actor.PID{
	nil,
	actor.NewPID("gw:80/eu", "client/1"), actor.NewPID("gw:80", "eu/client/1"),
	actor.NewPID("a\x00", "b"), actor.NewPID("a", "\x00b"),
	actor.NewPID("h:1", "2/x"), actor.NewPID("h", ":12/x"),
	actor.NewPID("10.0.0.1:4000", longPrefix+"player/alice"), actor.NewPID("10.0.0.1:4000", longPrefix+"player/bob"),
	actor.NewPID("10.0.0.1:4000", "p"), actor.NewPID("10.0.0.1:4000", "p/q"),
	actor.NewPID(wireAddr, "t/1"), // the PID of a target of the same batch as a sender
	actor.NewPID("10.0.0.7:4000", "worker/1"), actor.NewPID("10.0.0.8:4000", "worker/1"), // the same id on two nodes
}

var advTargetIDs = []string{"t/1", longPrefix + "player/alice", longPrefix + "player/bob", "t/1/x"}

type advMsg struct{ t, s int }

func (we *wireEnum) advBatches(n int) {
	per := len(advTargetIDs) * len(advSenders)
	total := 1
	for i := 0; i < n; i++ {
		total *= per
	}
	res := inWorld(func() {
		f := &wireFixture{}
		e, err := actor.NewEngine(actor.NewEngineConfig())
		if err != nil {
			panic(err)
		}
		f.e = e
		for _, id := range advTargetIDs {
			e.SpawnProc(&wireProc{pid: actor.NewPID(wireAddr, id), log: &f.log})
		}
		b := make([]advMsg, n)
		for j := 0; j < total; j++ {
			x := j
			for k := n - 1; k >= 0; k-- {
				b[k] = advMsg{(x % per) / len(advSenders), (x % per) % len(advSenders)}
				x /= per
			}
			pipe := &remote.VerifPipe{}
			w := remote.VerifWriter(f.e, wireAddr, pipe)
			envs := make([]actor.Envelope, n)
			for i, m := range b {
				envs[i] = remote.VerifDeliver(actor.NewPID(wireAddr, advTargetIDs[m.t]), advSenders[m.s], &remote.TestMessage{Data: []byte{byte('0' + i)}})
			}
			f.log = f.log[:0]
			we.rep.Evaluations++
			we.rep.Transitions += int64(n)
			sig, detail := "", ""
			if p := catchPanic(func() { w.Invoke(envs); remote.VerifRead(f.e, pipe) }); p != "" {
				sig, detail = "roundtrip/panic", p
			} else if len(f.log) != n {
				sig, detail = "roundtrip/message-lost", fmt.Sprintf("%d deliveries, want %d", len(f.log), n)
			} else {
				for i, m := range b {
					g := f.log[i]
					if g.target != advTargetIDs[m.t] {
						sig, detail = "roundtrip/delivered-to-wrong-target", fmt.Sprintf("message %d for %q delivered to %q", i, advTargetIDs[m.t], g.target)
					} else if (advSenders[m.s] == nil) != (g.sender == nil) || (g.sender != nil && !g.sender.Equals(advSenders[m.s])) {
						sig, detail = "roundtrip/wrong-sender", fmt.Sprintf("message %d sent by %q/%q arrived with sender %q", i, addrOf(advSenders[m.s]), idOf(advSenders[m.s]), pidStr(g.sender))
					}
				}
			}
			cls := fmt.Sprintf("adversarial len%d -> ok", n)
			if sig != "" {
				we.fail(sig, fmt.Sprintf("batch of %d with easily confused PIDs %v: %s", n, b, detail))
				cls = fmt.Sprintf("adversarial len%d -> %s", n, sig)
			}
			if we.rep.Outcomes[cls] == 0 && len(we.rep.Samples) < 6 {
				we.rep.Samples = append(we.rep.Samples, fmt.Sprintf("targets/senders %v => %s", b, cls))
			}
			we.rep.Outcomes[cls]++
		}
	})
	if len(res.Panics) > 0 {
		we.fail("engine/panic-escaped-on-engine-thread", firstLine(res.Panics[0]))
	}
}

func addrOf(p *actor.PID) string {
	if p == nil {
		return ""
	}
	return p.Address
}
func idOf(p *actor.PID) string {
	if p == nil {
		return ""
	}
	return p.ID
}

// multiBatches: every pair of batches (length 1..2 each, reduced pools) written one after the
// other through ONE writer / connection and read by ONE streamReader.Receive call: what the
// reader keeps between envelopes must not leak from one batch into the next.
func (we *wireEnum) multiBatches() {
	pools := wireTiny
	sz := pools.size()
	var batches [][]wireMsg
	for i := 0; i < sz; i++ {
		batches = append(batches, []wireMsg{pools.msg(i)})
	}
	for i := 0; i < sz; i++ {
		for j := 0; j < sz; j++ {
			batches = append(batches, []wireMsg{pools.msg(i), pools.msg(j)})
		}
	}
	const chunk = 3000
	total := len(batches) * len(batches)
	for from := 0; from < total; from += chunk {
		if time.Now().After(we.deadline) {
			we.rep.Exhaustive = false
			we.rep.Note += fmt.Sprintf(" time cap hit after %d of %d batch pairs;", from, total)
			return
		}
		from := from
		res := inWorld(func() {
			f := newWireFixture()
			for x := from; x < from+chunk && x < total; x++ {
				b1, b2 := batches[x/len(batches)], batches[x%len(batches)]
				we.rep.Evaluations++
				we.rep.Transitions += int64(len(b1) + len(b2))
				sig, detail := wireRoundTripSeq(f, [][]wireMsg{b1, b2})
				cls := fmt.Sprintf("two batches on one connection (%s | %s) -> ok", wireClass(b1), wireClass(b2))
				if sig != "" {
					we.fail(sig, detail)
					cls = "two batches on one connection -> " + sig
				}
				if we.rep.Outcomes[cls] == 0 && len(we.rep.Samples) < 6 {
					we.rep.Samples = append(we.rep.Samples, fmt.Sprintf("%v then %v => %s", b1, b2, cls))
				}
				we.rep.Outcomes[cls]++
			}
		})
		if len(res.Panics) > 0 {
			we.fail("engine/panic-escaped-on-engine-thread", firstLine(res.Panics[0]))
		}
	}
}

// wireRoundTripSeq writes the batches one after the other through one writer and reads them
// back with one Receive call; reference = concatenation of the per-batch references.
func wireRoundTripSeq(f *wireFixture, bs [][]wireMsg) (string, string) {
	pipe := &remote.VerifPipe{}
	w := remote.VerifWriter(f.e, wireAddr, pipe)
	type want struct {
		target string
		sender *actor.PID
		msg    any
	}
	var wants []want
	f.log = f.log[:0]
	for _, b := range bs {
		envs := make([]actor.Envelope, len(b))
		for i, m := range b {
			pl, ok := wirePayload(m.p)
			snd := wireSender(m.s)
			envs[i] = remote.VerifDeliver(actor.NewPID(wireAddr, wireTargetIDs[m.t]), snd, pl)
			if ok {
				wants = append(wants, want{wireTargetIDs[m.t], snd, pl})
			}
		}
		if p := catchPanic(func() { w.Invoke(envs) }); p != "" {
			return "writer/panic-in-Invoke", fmt.Sprintf("batches %v: %s", bs, p)
		}
	}
	var rerr error
	if p := catchPanic(func() { rerr = remote.VerifRead(f.e, pipe) }); p != "" {
		return "reader/panic-in-Receive", fmt.Sprintf("batches %v: %s", bs, p)
	}
	if rerr != nil {
		return "reader/error-on-own-encoding", fmt.Sprintf("batches %v: Receive returned %v", bs, rerr)
	}
	if len(f.log) != len(wants) {
		return "roundtrip/message-lost-or-phantom", fmt.Sprintf("batches %v: %d deliveries, want %d (%s)", bs, len(f.log), len(wants), wireDeliveries(f.log))
	}
	for i, wv := range wants {
		g := f.log[i]
		if g.target != wv.target {
			return "roundtrip/delivered-to-wrong-target", fmt.Sprintf("batches %v: message %d delivered to %s, want %s", bs, i, g.target, wv.target)
		}
		if gm, ok := g.msg.(proto.Message); !ok || fmt.Sprintf("%T", g.msg) != fmt.Sprintf("%T", wv.msg) || !proto.Equal(gm, wv.msg.(proto.Message)) {
			return "roundtrip/payload-differs", fmt.Sprintf("batches %v: message %d arrived as %T%v", bs, i, g.msg, g.msg)
		}
		switch {
		case wv.sender == nil && g.sender != nil:
			return "roundtrip/senderless-message-arrives-with-a-sender", fmt.Sprintf("batches %v: message %d sent without sender arrived with %s (a sender of an earlier batch?)", bs, i, pidStr(g.sender))
		case wv.sender != nil && (g.sender == nil || !wv.sender.Equals(g.sender)):
			return "roundtrip/wrong-sender", fmt.Sprintf("batches %v: message %d sent by %s arrived with sender %s", bs, i, pidStr(wv.sender), pidStr(g.sender))
		}
	}
	return "", ""
}

func init() {
	Register(&Job{Name: "C15/wire/adversarial-pids", Prop: "C15", Kind: "direct", Budget: 50, BudgetT: 300,
		Desc: "all batches of length 1-2 over 4 targets x 14 senders chosen to be easily confused (incl. a sender that is also a target of the batch, and the same id on two addresses): the same address+id concatenation split elsewhere (around '/', ':' and NUL), PIDs of ~160 bytes that differ only in the last segment, a PID that is a prefix of another",
		Run: wireRun(func(we *wireEnum, tier string) {
			we.advBatches(1)
			we.advBatches(2)
			if tier == "thorough" {
				we.advBatches(3)
			}
		})})
	Register(&Job{Name: "C15/wire/two-batches-one-connection", Prop: "C15", Kind: "direct", Budget: 50, BudgetT: 600,
		Desc: "every ordered pair of batches (length 1-2 over 2 targets x 3 senders x 3 payloads: 342 batches, 116964 pairs) written through one writer and read by one streamReader.Receive call",
		Run: wireRun(func(we *wireEnum, tier string) { we.multiBatches() })})
}
