package scen

// C18 - C20: explicit-state search over histories of the real cluster code. Each transition is a
// message handled by the real Agent / SelfManaged provider on a real engine; observation is
// through the public API and event-stream monitors; thread scheduling is deterministic (the
// properties quantify over histories, inputs and notification arrival orders, not schedules).

import (
	"fmt"
	"sort"
	"strings"
	"time"

	"github.com/anthdm/hollywood/actor"
	"github.com/anthdm/hollywood/cluster"
	"github.com/anthdm/hollywood/zzverif/vsched"
)

type nopReceiver struct{}

func (nopReceiver) Receive(*actor.Context) {}

func stubProvider(*cluster.Cluster) actor.Producer {
	return func() actor.Receiver { return nopReceiver{} }
}

// ------------------------------------------------------------------ C18 membership view

var c18Universe = map[byte]*cluster.Member{
	'A': {ID: "A", Host: "local", Kinds: []string{"k1"}, Region: "default"},
	'B': {ID: "B", Host: "hostB:4000", Kinds: []string{"k1", "k2"}, Region: "default"},
	'C': {ID: "C", Host: "hostC:4000", Kinds: []string{"k2", "k3"}, Region: "default"}, // shares k2 with B: a kind no local member has
	'D': {ID: "D", Host: "hostD:4000", Kinds: nil, Region: "default"},
	// identity is the member ID: another ID on B's host (the node restarted under a new id) is another member,
	// the same ID on another host (a node with a fixed id that came back elsewhere) is the same member
	'E': {ID: "E", Host: "hostB:4000", Kinds: []string{"k4"}, Region: "default"},
	'b': {ID: "B", Host: "hostB2:4000", Kinds: []string{"k1", "k2"}, Region: "default"},
}

// every subset containing the observing node A, plus lists with duplicate entries
var c18Snapshots = []string{"A", "AB", "AC", "AD", "ABC", "ABD", "ACD", "ABCD", "ABB", "AAC", "ABCC", "DDA", "AE", "ABE", "Ab", "AbC"}

func c18Members(snap string) []*cluster.Member {
	var out []*cluster.Member
	for i := 0; i < len(snap); i++ {
		u := c18Universe[snap[i]]
		out = append(out, &cluster.Member{ID: u.ID, Host: u.Host, Kinds: append([]string{}, u.Kinds...), Region: u.Region}) // fresh objects every time
	}
	return out
}

func idSet(snap string) map[string]bool {
	m := map[string]bool{}
	for i := 0; i < len(snap); i++ {
		m[c18Universe[snap[i]].ID] = true
	}
	return m
}

func setStr(m map[string]bool) string {
	ks := []string{}
	for k, v := range m {
		if v {
			ks = append(ks, k)
		}
	}
	sort.Strings(ks)
	return "{" + strings.Join(ks, ",") + "}"
}

func engMembership(depth int) vsched.Instance {
	var k *Kit
	var hist []string
	var bad []vsched.Violation
	var states []string
	body := func() {
		k = NewKit()
		c, err := cluster.New(cluster.NewConfig().WithEngine(k.E).WithID("A").WithProvider(stubProvider).WithRequestTimeout(time.Second))
		if err != nil {
			panic(err)
		}
		c.RegisterKind("k1", func() actor.Receiver { return nopReceiver{} }, cluster.NewKindConfig())
		c.Start()
		vsched.EndSetup()
		vsched.DeterministicSchedule(true)
		k.Log = nil
		view := map[string]bool{}
		n := 1 + vsched.Choose(depth)
		for step := 0; step < n; step++ {
			var si int
			if step == 0 {
				si = chooseVariant(len(c18Snapshots))
			} else {
				si = vsched.Choose(len(c18Snapshots))
			}
			snap := c18Snapshots[si]
			hist = append(hist, snap)
			mark := len(k.Log)
			k.E.Send(c.PID(), &cluster.Members{Members: c18Members(snap)})
			vsched.Quiesce()
			want := idSet(snap)
			// Members()
			got := map[string]bool{}
			ms := c.Members()
			for _, m := range ms {
				if got[m.ID] {
					bad = append(bad, V("membership/duplicate-member-in-view", "history %v: Members() lists %s twice", hist, m.ID))
				}
				got[m.ID] = true
			}
			if setStr(got) != setStr(want) {
				bad = append(bad, V("membership/view-differs-from-snapshot", "history %v: Members() = %s, snapshot = %s", hist, setStr(got), setStr(want)))
			}
			// events since the snapshot was sent
			joins, leaves := map[string]int{}, map[string]int{}
			for _, e := range k.Log[mark:] {
				switch ev := e.Raw.(type) {
				case cluster.MemberJoinEvent:
					joins[ev.Member.ID]++
				case cluster.MemberLeaveEvent:
					leaves[ev.Member.ID]++
				}
			}
			for _, s := range []string{"A", "B", "C", "D", "E"} {
				wj, wl := 0, 0
				if want[s] && !view[s] {
					wj = 1
				}
				if view[s] && !want[s] {
					wl = 1
				}
				if joins[s] != wj {
					sig := "membership/join-event-missing"
					if joins[s] > wj {
						sig = "membership/spurious-or-duplicate-join-event"
					}
					bad = append(bad, V(sig, "history %v: %d MemberJoinEvent for %s, want %d (view before %s)", hist, joins[s], s, wj, setStr(view)))
				}
				if leaves[s] != wl {
					sig := "membership/leave-event-missing"
					if leaves[s] > wl {
						sig = "membership/spurious-or-duplicate-leave-event"
					}
					bad = append(bad, V(sig, "history %v: %d MemberLeaveEvent for %s, want %d (view before %s)", hist, leaves[s], s, wl, setStr(view)))
				}
			}
			// kinds
			for _, kind := range []string{"k1", "k2", "k3", "k4"} {
				wantK := false
				for i := 0; i < len(snap); i++ {
					for _, mk := range c18Universe[snap[i]].Kinds {
						wantK = wantK || mk == kind
					}
				}
				if g := c.HasKind(kind); g != wantK {
					bad = append(bad, V("membership/haskind-wrong", "history %v: HasKind(%s) = %v, want %v", hist, kind, g, wantK))
				}
			}
			view = want
			states = append(states, setStr(got))
		}
	}
	check := func(r *vsched.Result) []vsched.Violation {
		vs := stdEnd(r)
		if len(vs) > 0 {
			return vs
		}
		return bad
	}
	outcome := func() string { return strings.Join(hist, ">") + " = " + strings.Join(states, ">") }
	return vsched.Instance{Body: body, Check: check, Outcome: outcome}
}

func init() {
	Register(&Job{Name: "C18/cluster/snapshot-histories-3", Prop: "C18", Bound: 0, BoundT: 1, Budget: 50, BudgetT: 600, Shards: 16,
		Desc: "real Agent behind the real Cluster API with a stub provider: all sequences of <=3 membership snapshots out of 16 (every subset of {A,B,C,D} containing the observing node A, lists with duplicate entries, a member with another id on B's host, B's id on another host), fresh Member objects each time; after every snapshot Members(), the MemberJoin/LeaveEvents since the previous one and HasKind(k1..k4) are compared with the set model",
		Make: func() vsched.Instance { return engMembership(3) }})
	Register(&Job{Name: "C18/cluster/snapshot-histories-4", Prop: "C18", Bound: 0, BoundT: 0, Budget: 50, BudgetT: 900, Shards: 16,
		Desc: "all sequences of <=4 membership snapshots out of 16 (69904 histories)", Make: func() vsched.Instance { return engMembership(4) }})
	Register(&Job{Name: "C18/cluster/snapshot-histories-5", Prop: "C18", Tier: "thorough", Bound: 0, BoundT: 0, Budget: 50, BudgetT: 1200, Shards: 16,
		Desc: "all sequences of <=5 membership snapshots out of 16 (1118480 histories)", Make: func() vsched.Instance { return engMembership(5) }})
	_ = fmt.Sprint
}

// ------------------------------------------------------------------ shared: pool remoter

// poolMsg is one outbound remote message captured instead of being put on a socket.
type poolMsg struct {
	from   string // address of the sending engine
	target *actor.PID
	msg    any
	sender *actor.PID
}

// poolRemoter implements actor.Remoter: outbound messages go into a shared in-flight pool.
type poolRemoter struct {
	addr string
	pool *[]poolMsg
}

func (r *poolRemoter) Address() string { return r.addr }
func (r *poolRemoter) Send(pid *actor.PID, msg any, sender *actor.PID) {
	vsched.Touch("pool")
	*r.pool = append(*r.pool, poolMsg{r.addr, pid, msg, sender})
}
func (r *poolRemoter) Start(*actor.Engine) error { return nil }
func (r *poolRemoter) Stop() *vsched.WaitGroup   { return &vsched.WaitGroup{} }

func memberIDs(ms []*cluster.Member) string {
	m := map[string]bool{}
	for _, x := range ms {
		if x != nil {
			m[x.ID] = true
		}
	}
	return setStr(m)
}

// ------------------------------------------------------------------ C20 self-managed provider

var c20Peers = map[byte]*cluster.Member{
	'A': {ID: "A", Host: "10.0.0.1:4000", Kinds: []string{}, Region: "default"},
	'B': {ID: "B", Host: "10.0.0.2:4000", Kinds: []string{"k1"}, Region: "default"},
	'C': {ID: "C", Host: "10.0.0.3:4000", Kinds: []string{"k2"}, Region: "default"},
	'D': {ID: "D", Host: "10.0.0.4:4000", Kinds: nil, Region: "default"},
}

// events of the C20 alphabet: hX handshake from X; m<list> member list; uX unreachable report for
// X's address (uZ: an address that never was a member); t: the member-ping ticker fires
// "wBC": B and C are reported unreachable back to back (both reports are under way before the provider has
// handled the first)
var c20Events = []string{"hB", "hC", "hD", "mB", "mCD", "mABC", "mBB", "uB", "uC", "uD", "uZ", "t", "wBC"}

func c20Member(id byte) *cluster.Member {
	u := c20Peers[id]
	return &cluster.Member{ID: u.ID, Host: u.Host, Kinds: append([]string{}, u.Kinds...), Region: u.Region}
}

func engProvider(depth int) vsched.Instance {
	var k *Kit
	var hist []string
	var bad []vsched.Violation
	var states []string
	body := func() {
		vsched.BeginSetup()
		k = &Kit{inRecv: map[string]bool{}, exitVC: map[string]vsched.VC{}, incs: map[string]int{}}
		var pool []poolMsg
		var reports [][]*cluster.Member
		// every member list the provider handed out (to the agent, in a handshake reply), with what it said
		// at that moment: a message that was delivered belongs to its receiver and must not change later
		type keptList struct {
			what string
			list []*cluster.Member
			ids  string
		}
		var kept []keptList
		e, err := actor.NewEngine(actor.NewEngineConfig().WithRemote(&poolRemoter{addr: c20Peers['A'].Host, pool: &pool}))
		if err != nil {
			panic(err)
		}
		k.E = e
		k.MonPID = e.SpawnFunc(func(c *actor.Context) {
			switch c.Message().(type) {
			case actor.ActorRestartedEvent, actor.ActorMaxRestartsExceededEvent:
				k.add(Ev{Kind: "event", Actor: "mon", Msg: Render(c.Message()), Raw: c.Message()})
			}
		}, "mon", actor.WithID("1"))
		e.Subscribe(k.MonPID)
		c, err := cluster.New(cluster.NewConfig().WithEngine(e).WithID("A").WithRequestTimeout(time.Second))
		if err != nil {
			panic(err)
		}
		stubAgent := func() actor.Receiver {
			return funcRecv(func(ctx *actor.Context) {
				if m, ok := ctx.Message().(*cluster.Members); ok {
					vsched.Touch("reports")
					reports = append(reports, m.Members)
					kept = append(kept, keptList{"the list reported to the agent", m.Members, memberIDs(m.Members)})
				}
			})
		}
		cluster.VerifStartWithStubAgent(c, stubAgent)
		prov := cluster.VerifProviderPID(c)
		vsched.EndSetup()
		vsched.DeterministicSchedule(true)
		set := map[string]bool{"A": true}
		if len(reports) == 0 || memberIDs(reports[len(reports)-1]) != "{A}" {
			bad = append(bad, V("provider/initial-report-wrong", "after Started the agent was told %d lists (last %v), want [A]", len(reports), reports))
		}
		n := 1 + vsched.Choose(depth)
		for step := 0; step < n; step++ {
			var ei int
			if step == 0 {
				ei = chooseVariant(len(c20Events))
			} else {
				ei = vsched.Choose(len(c20Events))
			}
			ev := c20Events[ei]
			hist = append(hist, ev)
			pool = pool[:0]
			reports = reports[:0]
			mark := len(k.Log)
			before := setStr(set)
			mustReport := false
			switch ev[0] {
			case 'h':
				p := c20Member(ev[1])
				set[p.ID] = true
				mustReport = true
				e.SendWithSender(prov, &cluster.Handshake{Member: p}, actor.NewPID(p.Host, "provider/"+p.ID))
			case 'm':
				var l []*cluster.Member
				for i := 1; i < len(ev); i++ {
					l = append(l, c20Member(ev[i]))
					set[string(ev[i])] = true
				}
				mustReport = true
				e.Send(prov, &cluster.Members{Members: l})
			case 'u':
				addr := "10.9.9.9:4000"
				if ev[1] != 'Z' {
					addr = c20Peers[ev[1]].Host
					if set[string(ev[1])] {
						mustReport = true
					}
					delete(set, string(ev[1]))
				}
				e.BroadcastEvent(actor.RemoteUnreachableEvent{ListenAddr: addr})
			case 'w':
				for i := 1; i < len(ev); i++ {
					if set[string(ev[i])] {
						mustReport = true
					}
					delete(set, string(ev[i]))
				}
				for i := 1; i < len(ev); i++ {
					e.BroadcastEvent(actor.RemoteUnreachableEvent{ListenAddr: c20Peers[ev[i]].Host})
				}
			case 't':
				vsched.Advance(2 * time.Second)
			}
			vsched.Quiesce()
			want := setStr(set)
			for _, x := range k.Log[mark:] {
				bad = append(bad, V("provider/provider-crashed-and-restarted", "history %v: %s (member list before %s)", hist, x.Msg, before))
			}
			if mustReport && len(reports) == 0 {
				bad = append(bad, V("provider/agent-not-told", "history %v: the agent received no member list, want %s", hist, want))
			}
			for ri, r := range reports {
				if ev[0] == 'w' && ri < len(reports)-1 {
					continue // two removals: the report in between names the set in between; the last one counts
				}
				if memberIDs(r) != want {
					bad = append(bad, V("provider/agent-told-wrong-list", "history %v: agent was told %s, want %s (before: %s)", hist, memberIDs(r), want, before))
					break
				}
			}
			// outbound messages
			replies := 0
			pinged := map[string]bool{}
			for _, pm := range pool {
				switch m := pm.msg.(type) {
				case *cluster.Members:
					replies++
					kept = append(kept, keptList{"the handshake reply to " + pidStr(pm.target), m.Members, memberIDs(m.Members)})
					if ev[0] != 'h' {
						bad = append(bad, V("provider/unexpected-outbound-member-list", "history %v: a member list was sent to %s", hist, pidStr(pm.target)))
					} else {
						p := c20Peers[ev[1]]
						if pidStr(pm.target) != p.Host+"/provider/"+p.ID {
							bad = append(bad, V("provider/handshake-answered-to-wrong-peer", "history %v: reply sent to %s, want %s", hist, pidStr(pm.target), p.Host+"/provider/"+p.ID))
						}
						if memberIDs(m.Members) != want {
							bad = append(bad, V("provider/handshake-reply-incomplete", "history %v: reply lists %s, want %s", hist, memberIDs(m.Members), want))
						}
					}
				case *actor.Ping:
					pinged[pm.target.Address] = true
				}
			}
			if ev[0] == 'h' && replies != 1 {
				bad = append(bad, V("provider/handshake-not-answered-once", "history %v: %d replies to the handshake", hist, replies))
			}
			if ev[0] == 't' {
				wantPing := map[string]bool{}
				for id := range set {
					if id != "A" {
						wantPing[c20Peers[id[0]].Host] = true
					}
				}
				if setStr(pinged) != setStr(wantPing) {
					bad = append(bad, V("provider/ping-targets-differ-from-member-list", "history %v: pinged %s, members %s", hist, setStr(pinged), want))
				}
			}
			states = append(states, want)
		}
		for _, kl := range kept {
			if now := memberIDs(kl.list); now != kl.ids {
				bad = append(bad, V("provider/delivered-member-list-changed-afterwards", "history %v: %s said %s when it was delivered and says %s now", hist, kl.what, kl.ids, now))
				break
			}
		}
	}
	check := func(r *vsched.Result) []vsched.Violation {
		vs := stdEnd(r, "actor/engine.go", "cluster/selfmanaged.go")
		if len(vs) > 0 {
			return vs
		}
		return bad
	}
	outcome := func() string { return strings.Join(hist, ">") + " = " + strings.Join(states, ">") }
	return vsched.Instance{Body: body, Check: check, Outcome: outcome}
}

type funcRecv func(*actor.Context)

func (f funcRecv) Receive(c *actor.Context) { f(c) }

func init() {
	Register(&Job{Name: "C20/provider/event-histories-3", Prop: "C20", Bound: 0, BoundT: 1, Budget: 50, BudgetT: 600, Shards: 13,
		Desc: "real SelfManaged provider (zeroconf replaced by an inert shim, member-ping ticker fired explicitly) reporting to a stub agent, outbound messages captured by a pool Remoter: all sequences of <=3 events out of 13 (handshake from B/C/D, member lists [B] [C,D] [A,B,C] [B,B], unreachable report for B/C/D/a non-member address, B and C reported unreachable back to back, ticker): member set, reports to the agent, handshake reply, ping targets, no provider restart",
		Make: func() vsched.Instance { return engProvider(3) }})
	Register(&Job{Name: "C20/provider/event-histories-4", Prop: "C20", Bound: 0, BoundT: 0, Budget: 50, BudgetT: 900, Shards: 13,
		Desc: "all sequences of <=4 events out of 13 (30940 histories)", Make: func() vsched.Instance { return engProvider(4) }})
	Register(&Job{Name: "C20/provider/event-histories-5", Prop: "C20", Tier: "thorough", Bound: 0, BoundT: 0, Budget: 50, BudgetT: 1200, Shards: 13,
		Desc: "all sequences of <=5 events out of 13 (402233 histories)", Make: func() vsched.Instance { return engProvider(5) }})
}

// ------------------------------------------------------------------ C19 activations

type c19Node struct {
	idx   int
	id    string
	addr  string
	kinds []string
	e     *actor.Engine
	c     *cluster.Cluster
}

func (n *c19Node) member() *cluster.Member {
	return &cluster.Member{ID: n.id, Host: n.addr, Kinds: append([]string{}, n.kinds...), Region: "default"}
}

type c19World struct {
	nodes   []*c19Node
	pool    []poolMsg
	members map[int]bool      // reference membership
	active  map[string]string // reference: "kind/id" -> host address
	hist    []string
	bad     []vsched.Violation
	left    map[int]bool
}

// kind "ab" has kind "a" as a prefix; n2 registers no kind at all (it can still host cluster-spawned actors) (n1 registers its kinds in non-alphabetical order)
var c19Kinds = [][]string{{"a"}, {"ab", "a"}, {}}

func newC19World(n int) *c19World {
	w := &c19World{members: map[int]bool{}, active: map[string]string{}, left: map[int]bool{}}
	for i := 0; i < n; i++ {
		nd := &c19Node{idx: i, id: fmt.Sprintf("n%d", i), addr: fmt.Sprintf("10.0.0.%d:4000", i+1), kinds: c19Kinds[i]}
		e, err := actor.NewEngine(actor.NewEngineConfig().WithRemote(&poolRemoter{addr: nd.addr, pool: &w.pool}))
		if err != nil {
			panic(err)
		}
		nd.e = e
		c, err := cluster.New(cluster.NewConfig().WithEngine(e).WithID(nd.id).WithProvider(stubProvider).WithRequestTimeout(time.Second))
		if err != nil {
			panic(err)
		}
		for _, k := range nd.kinds {
			c.RegisterKind(k, func() actor.Receiver { return nopReceiver{} }, cluster.NewKindConfig())
		}
		c.Start()
		nd.c = c
		w.nodes = append(w.nodes, nd)
	}
	return w
}

func (w *c19World) byAddr(addr string) *c19Node {
	for _, n := range w.nodes {
		if n.addr == addr {
			return n
		}
	}
	return nil
}

func (w *c19World) poolKey(pm poolMsg) string {
	return fmt.Sprintf("%s|%T|%v|%s", pidStr(pm.target), pm.msg, pm.msg, pidStr(pm.sender))
}

// drain delivers the in-flight messages in every order (the next delivery is a data choice
// over the pending entries in canonical order) until the pool is empty and the operation that
// runs on its own thread is done; timeouts only fire when nothing is left to deliver.
func (w *c19World) drain(done *bool) {
	for {
		vsched.Settle()
		if len(w.pool) == 0 {
			if *done {
				vsched.Quiesce()
				if len(w.pool) == 0 {
					return
				}
				continue
			}
			vsched.Quiesce() // nothing to deliver, operation still blocked: let its timeout fire
			if len(w.pool) == 0 && !*done {
				w.bad = append(w.bad, V("harness/operation-never-returns", "history %v", w.hist))
				return
			}
			continue
		}
		sort.SliceStable(w.pool, func(i, j int) bool { return w.poolKey(w.pool[i]) < w.poolKey(w.pool[j]) })
		i := vsched.Choose(len(w.pool))
		pm := w.pool[i]
		w.pool = append(w.pool[:i:i], w.pool[i+1:]...)
		dst := w.byAddr(pm.target.Address)
		if dst == nil || !w.members[dst.idx] {
			continue // addressed to a node that is not (or no longer) part of the cluster: lost on the wire
		}
		dst.e.SendLocal(pm.target, pm.msg, pm.sender)
	}
}

// run performs op on its own thread and drains the network meanwhile.
func (w *c19World) run(op func()) {
	done := false
	vsched.Go("operation", func() { op(); done = true })
	w.drain(&done)
}

func (w *c19World) memberList() []*cluster.Member {
	var l []*cluster.Member
	for _, n := range w.nodes {
		if w.members[n.idx] {
			l = append(l, n.member())
		}
	}
	return l
}

// snapshot: the (stub) providers tell the agents of the given nodes the current member list;
// the snapshots travel through the pool so that their arrival order is enumerated too.
func (w *c19World) snapshot(to []*c19Node) {
	for _, n := range to {
		w.pool = append(w.pool, poolMsg{from: "provider", target: n.c.PID(), msg: &cluster.Members{Members: w.memberList()}})
	}
}

func (w *c19World) capable(kind string) []*c19Node {
	var out []*c19Node
	for _, n := range w.nodes {
		if !w.members[n.idx] {
			continue
		}
		for _, k := range n.kinds {
			if k == kind {
				out = append(out, n)
			}
		}
	}
	return out
}

// checkViews: at quiescence every member resolves every active id to the same PID and lists it
// once under its kind; nothing else is listed; the hosting registry has (only) the active actors.
func (w *c19World) checkViews() {
	ids := []string{"a/1", "a/2", "a/3", "ab/1", "z/1"}
	for _, n := range w.nodes {
		if !w.members[n.idx] {
			continue
		}
		for _, id := range ids {
			got := n.c.GetActiveByID(id)
			host, isActive := w.active[id]
			switch {
			case isActive && got == nil:
				w.bad = append(w.bad, V("activation/active-actor-unknown-on-member", "history %v: %s does not know %s (hosted on %s)", w.hist, n.id, id, host))
			case isActive && (got.Address != host || got.ID != id):
				w.bad = append(w.bad, V("activation/members-disagree-on-pid", "history %v: %s resolves %s to %s, want %s/%s", w.hist, n.id, id, pidStr(got), host, id))
			case !isActive && got != nil:
				w.bad = append(w.bad, V("activation/stale-entry-on-member", "history %v: %s still resolves %s to %s", w.hist, n.id, id, pidStr(got)))
			}
		}
		for _, kind := range []string{"a", "ab", "z"} {
			got := map[string]int{}
			for _, p := range n.c.GetActiveByKind(kind) {
				if p != nil {
					got[pidStr(p)]++
				}
			}
			want := map[string]int{}
			for id, host := range w.active {
				if strings.HasPrefix(id, kind+"/") {
					want[host+"/"+id] = 1
				}
			}
			if fmt.Sprint(got) != fmt.Sprint(want) {
				w.bad = append(w.bad, V("activation/get-active-by-kind-wrong", "history %v: %s lists kind %s as %v, want %v", w.hist, n.id, kind, got, want))
			}
		}
	}
	for _, n := range w.nodes {
		for _, id := range ids {
			parts := strings.SplitN(id, "/", 2)
			reg := n.e.Registry.GetPID(parts[0], parts[1]) != nil
			want := w.active[id] == n.addr
			if !w.members[n.idx] {
				continue // a node that left is out of sight; what it still runs is its own business
			}
			if reg != want {
				sig := "activation/actor-not-running-on-its-host"
				if reg {
					sig = "activation/actor-running-where-it-should-not"
				}
				w.bad = append(w.bad, V(sig, "history %v: registry of %s has %s = %v, want %v", w.hist, n.id, id, reg, want))
			}
		}
	}
}

type c19Op struct {
	name string
	do   func(w *c19World)
}

// enabledOps: the operations that make sense in the current reference state.
func (w *c19World) enabledOps() []c19Op {
	var ops []c19Op
	nmem := 0
	for range w.members {
		nmem++
	}
	for _, n := range w.nodes {
		n := n
		if !w.members[n.idx] {
			if w.left[n.idx] {
				continue // a departed node does not come back (it would bring its old state with it)
			}
			ops = append(ops, c19Op{"join(" + n.id + ")", func(w *c19World) {
				w.members[n.idx] = true
				var to []*c19Node
				for _, m := range w.nodes {
					if w.members[m.idx] {
						to = append(to, m)
					}
				}
				w.run(func() { w.snapshot(to) })
			}})
			continue
		}
		if nmem > 1 {
			// one membership update in which this member leaves AND a node that was never a member joins
			// (a provider that publishes snapshots reports both at once)
			for _, j := range w.nodes {
				j := j
				if w.members[j.idx] || w.left[j.idx] {
					continue
				}
				ops = append(ops, c19Op{"swap(" + n.id + "->" + j.id + ")", func(w *c19World) {
					delete(w.members, n.idx)
					w.left[n.idx] = true
					w.members[j.idx] = true
					for id, host := range w.active {
						if host == n.addr {
							delete(w.active, id)
						}
					}
					var to []*c19Node
					for _, m := range w.nodes {
						if w.members[m.idx] {
							to = append(to, m)
						}
					}
					w.run(func() { w.snapshot(to) })
				}})
			}
			ops = append(ops, c19Op{"leave(" + n.id + ")", func(w *c19World) {
				delete(w.members, n.idx)
				w.left[n.idx] = true
				for id, host := range w.active {
					if host == n.addr {
						delete(w.active, id)
					}
				}
				var to []*c19Node
				for _, m := range w.nodes {
					if w.members[m.idx] {
						to = append(to, m)
					}
				}
				w.run(func() { w.snapshot(to) })
			}})
		}
		type act struct {
			kind, id string
			sel      int // -1 first capable (smallest member id), else node index
		}
		acts := []act{{"a", "1", -1}, {"a", "2", -1}, {"ab", "1", -1}, {"z", "1", -1}}
		for _, o := range w.nodes {
			if o.idx != n.idx {
				acts = append(acts, act{"a", "1", o.idx})
				break
			}
		}
		for _, a := range acts {
			a := a
			selName := "first"
			if a.sel >= 0 {
				selName = w.nodes[a.sel].id
			}
			ops = append(ops, c19Op{fmt.Sprintf("activate(%s,%s/%s,%s)", n.id, a.kind, a.id, selName), func(w *c19World) {
				key := a.kind + "/" + a.id
				// reference
				var wantHost string
				if _, dup := w.active[key]; !dup {
					capb := w.capable(a.kind)
					if a.sel < 0 && len(capb) > 0 {
						wantHost = capb[0].addr
					}
					if a.sel >= 0 {
						for _, c := range capb {
							if c.idx == a.sel {
								wantHost = c.addr
							}
						}
					}
				}
				sel := func(d cluster.ActivationDetails) *cluster.Member {
					var best *cluster.Member
					for _, m := range d.Members {
						if a.sel >= 0 {
							if m.ID == w.nodes[a.sel].id {
								// an equal Member that is not the very object of d.Members, as a caller that
								// remembered b.Member() would hand back
								return &cluster.Member{ID: m.ID, Host: m.Host, Kinds: append([]string{}, m.Kinds...), Region: m.Region}
							}
							continue
						}
						if best == nil || m.ID < best.ID {
							best = m
						}
					}
					return best
				}
				var got *actor.PID
				before := w.registrySnapshot()
				w.run(func() {
					got = n.c.Activate(a.kind, cluster.NewActivationConfig().WithID(a.id).WithSelectMemberFunc(sel))
				})
				after := w.registrySnapshot()
				if wantHost == "" {
					if got != nil {
						w.bad = append(w.bad, V("activation/activate-returned-pid-where-nil-expected", "history %v: Activate returned %s although the id is taken or nobody advertises the kind", w.hist, pidStr(got)))
					}
					if before != after {
						w.bad = append(w.bad, V("activation/spawned-although-nothing-should-be", "history %v: registries changed from %s to %s", w.hist, before, after))
					}
					return
				}
				w.active[key] = wantHost
				if got == nil || got.Address != wantHost || got.ID != key {
					w.bad = append(w.bad, V("activation/activate-returned-wrong-pid", "history %v: Activate returned %s, want %s/%s", w.hist, pidStr(got), wantHost, key))
				}
			}})
		}
		// deactivate what this member can resolve
		for _, key := range []string{"a/1", "ab/1"} {
			key := key
			if _, ok := w.active[key]; !ok {
				continue
			}
			ops = append(ops, c19Op{fmt.Sprintf("deactivate(%s,%s)", n.id, key), func(w *c19World) {
				pid := actor.NewPID(w.active[key], key)
				delete(w.active, key)
				w.run(func() { n.c.Deactivate(pid) })
			}})
		}
		// cluster-aware local spawn of a fresh id
		if _, ok := w.active["a/3"]; !ok {
			ops = append(ops, c19Op{fmt.Sprintf("spawn(%s,a/3)", n.id), func(w *c19World) {
				w.active["a/3"] = n.addr
				w.run(func() { n.c.Spawn(func() actor.Receiver { return nopReceiver{} }, "a", actor.WithID("3")) })
			}})
		}
	}
	return ops
}

func (w *c19World) registrySnapshot() string {
	var parts []string
	for _, n := range w.nodes {
		for _, id := range []string{"a/1", "a/2", "a/3", "ab/1", "z/1"} {
			p := strings.SplitN(id, "/", 2)
			if n.e.Registry.GetPID(p[0], p[1]) != nil {
				parts = append(parts, n.id+":"+id)
			}
		}
	}
	return strings.Join(parts, ",")
}

func engActivations(nnodes, depth int) vsched.Instance { return engActivationsFrom(nnodes, depth, false) }

// engActivationsFrom: pre starts from the non-initial state in which a/1 is already active on n0.
func engActivationsFrom(nnodes, depth int, pre bool) vsched.Instance {
	var w *c19World
	var states []string
	body := func() {
		vsched.BeginSetup()
		w = newC19World(nnodes)
		vsched.EndSetup()
		vsched.DeterministicSchedule(true)
		// node 0 forms the cluster
		w.members[0] = true
		w.run(func() { w.snapshot([]*c19Node{w.nodes[0]}) })
		if pre {
			w.hist = append(w.hist, "[a/1 active on n0]")
			w.active["a/1"] = w.nodes[0].addr
			w.run(func() { w.nodes[0].c.Activate("a", cluster.NewActivationConfig().WithID("1")) })
			w.checkViews()
		}
		n := 1 + vsched.Choose(depth)
		for step := 0; step < n; step++ {
			ops := w.enabledOps()
			var oi int
			if step == 0 {
				oi = chooseVariant(len(ops))
			} else {
				oi = vsched.Choose(len(ops))
			}
			w.hist = append(w.hist, ops[oi].name)
			ops[oi].do(w)
			w.checkViews()
			states = append(states, fmt.Sprintf("%s|%v", setStrInt(w.members), w.active))
		}
	}
	check := func(r *vsched.Result) []vsched.Violation {
		vs := stdEnd(r)
		if len(vs) > 0 {
			return vs
		}
		return w.bad
	}
	outcome := func() string {
		if w == nil {
			return ""
		}
		return strings.Join(w.hist, ">") + " = " + strings.Join(states, ">")
	}
	return vsched.Instance{Body: body, Check: check, Outcome: outcome}
}

func setStrInt(m map[int]bool) string {
	var ks []string
	for k, v := range m {
		if v {
			ks = append(ks, fmt.Sprint(k))
		}
	}
	sort.Strings(ks)
	return "{" + strings.Join(ks, ",") + "}"
}

func init() {
	Register(&Job{Name: "C19/cluster/two-nodes-3-ops", Prop: "C19", Bound: 0, BoundT: 1, Budget: 50, BudgetT: 600, Shards: 7,
		Desc: "2 real engines with real cluster agents (stub providers, outbound messages captured in a shared pool and delivered in every order); node n0{a} forms the cluster, then all histories of <=3 enabled operations out of join/leave/activate(kind a|ab|z, id 1|2, first capable or a fixed member)/deactivate/cluster spawn from either node; reference model = membership + global id->host map",
		Make: func() vsched.Instance { return engActivations(2, 3) }})
	Register(&Job{Name: "C19/cluster/three-nodes-from-activated", Prop: "C19", Bound: 0, BoundT: 1, Budget: 50, BudgetT: 900, Shards: 8,
		Desc: "3 nodes n0{a} n1{a,ab} n2{} (no kinds), starting from the state in which a/1 is already active on n0 (non-initial start): all histories of <=3 enabled operations (two successive joins, deactivate/leave between them, a kind-less member that cluster-spawns and leaves, ...), all notification arrival orders",
		Make: func() vsched.Instance { return engActivationsFrom(3, 3, true) }})
	Register(&Job{Name: "C19/cluster/three-nodes-3-ops", Prop: "C19", Tier: "thorough", Bound: 0, BoundT: 0, Budget: 50, BudgetT: 1200, Shards: 8,
		Desc: "3 nodes n0{a} n1{a,ab} n2{}, all histories of <=3 enabled operations, all notification arrival orders",
		Make: func() vsched.Instance { return engActivations(3, 3) }})
	Register(&Job{Name: "C19/cluster/two-nodes-4-ops", Prop: "C19", Tier: "thorough", Bound: 0, BoundT: 0, Budget: 50, BudgetT: 1200, Shards: 7,
		Desc: "2 nodes, all histories of <=4 enabled operations, all notification arrival orders",
		Make: func() vsched.Instance { return engActivations(2, 4) }})
}
