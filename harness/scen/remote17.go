package scen

// C17 controlled leg: two real engines with the real remote.Remote, streamRouter, streamWriter,
// streamReader, serializer and generated drpc glue in one scheduler world; only the transport
// imports of package remote are redirected to the in-memory network (vnet / vdrpcconn /
// vdrpcserver). Dial outcomes (peer down / up) are scenario parameters enumerated as data.

import (
	"crypto/tls"
	"fmt"
	"strings"
	"time"

	"github.com/anthdm/hollywood/actor"
	"github.com/anthdm/hollywood/remote"
	"github.com/anthdm/hollywood/zzverif/vnet"
	"verifharness/rparams"
	"github.com/anthdm/hollywood/zzverif/vsched"
)

const (
	remAddrA = "10.0.0.1:4000"
	remAddrB = "10.0.0.2:4000"
	remAddrC = "10.0.0.3:4000"
)

type remNode struct {
	k *Kit
	r *remote.Remote
}

// newRemNode builds an engine with a real Remote listening on addr. quiet: event stream detached.
// remTLS: the nodes of the current execution are configured WithTLS (set from the variant).
var remTLS bool

func newRemNode(addr string, quiet bool) *remNode {
	k := &Kit{inRecv: map[string]bool{}, exitVC: map[string]vsched.VC{}, incs: map[string]int{}}
	cfg := remote.NewConfig()
	if remTLS {
		cfg = cfg.WithTLS(&tls.Config{})
	}
	r := remote.New(addr, cfg)
	e, err := actor.NewEngine(actor.NewEngineConfig().WithRemote(r))
	if err != nil {
		panic(err)
	}
	k.E = e
	if quiet {
		vsched.Quiesce()
		actor.VerifMuteEvents(e)
	} else {
		k.MonPID = e.SpawnFunc(func(c *actor.Context) {
			switch c.Message().(type) {
			case actor.Initialized, actor.Started, actor.Stopped, actor.ActorInitializedEvent, actor.ActorStartedEvent:
				return
			}
			k.add(Ev{Kind: "event", Actor: "mon", Msg: Render(c.Message()), Raw: c.Message()})
		}, "mon", actor.WithID("1"))
		e.Subscribe(k.MonPID)
	}
	return &remNode{k: k, r: r}
}

type remParams = rparams.Params

type remSend struct {
	id     string
	target string
	sender string
	late   bool
}

func tm(id string) *remote.TestMessage { return &remote.TestMessage{Data: []byte(id)} }

func init() {
	// as an application that sends its own generated types would (the oracle reads the delivered message
	// objects at the END of the execution: a delivered message belongs to its receiver)
	remote.RegisterType(&remote.TestMessage{})
}

func engRemote(variants []remParams) vsched.Instance {
	var p remParams
	var a, b, b2, c3 *remNode
	var spawnTargets func(n *remNode)
	var sends []remSend
	bLog := func() []Ev {
		l := append([]Ev{}, b.k.Log...)
		if b2 != nil {
			l = append(l, b2.k.Log...)
		}
		if c3 != nil {
			l = append(l, c3.k.Log...)
		}
		return l
	}
	var reqGot any
	var reqResp *actor.Response
	reqPending := 0
	var reqErr error
	reqDone := false
	body := func() {
		reqResp, reqPending = nil, 0
		p = variants[chooseVariant(len(variants))]
		vnet.Reset()
		vsched.BeginSetup()
		down := p.FailDials >= 3
		remTLS = p.TLS
		// (the request variant keeps A's event stream: a reply that arrives after the requester's timeout is
		// only visible as a dead letter there)
		a = newRemNode(remAddrA, ((!down && !p.Restart) || p.NoEvents) && !p.Request)
		b = newRemNode(remAddrB, true)
		spawnTargets = func(n *remNode) {
			prefix := ""
			if n.r.Address() == remAddrC {
				prefix = "c."
			}
			for i := 1; i <= 2; i++ {
				n.k.E.Spawn(n.k.Producer(fmt.Sprintf("%st%d", prefix, i), func(k *Kit, c *actor.Context, inc int) {
					if m, ok := c.Message().(*remote.TestMessage); ok && strings.HasPrefix(string(m.Data), "req") {
						c.Respond(tm("re:" + string(m.Data)))
					}
				}), "t", actor.WithID(fmt.Sprint(i)))
			}
		}
		spawnTargets(b)
		if p.Peers == 2 {
			c3 = newRemNode(remAddrC, true)
			spawnTargets(c3)
		}
		var actorSender *actor.PID
		if p.Actor {
			actorSender = a.k.E.Spawn(a.k.Producer("S", func(k *Kit, c *actor.Context, inc int) {
				if s, ok := c.Message().(string); ok && s == "go" {
					for i := 0; i < 2; i++ {
						id := fmt.Sprintf("a%d", i)
						tgt := actor.NewPID(remAddrB, "t/1")
						sends = append(sends, remSend{id: id, target: "t1", sender: pidStr(c.PID())})
						c.Send(tgt, tm(id))
					}
				}
			}), "s", actor.WithID("1"))
		}
		vsched.EndSetup()
		vnet.FailNextDials(remAddrB, p.FailDials)
		a.k.Log = nil
		for t := 0; t < p.Senders; t++ {
			t := t
			vsched.Go("sender", func() {
				for i := 0; i < p.PerT; i++ {
					id := fmt.Sprintf("%d.%d", t, i)
					tn := 1 + (t+i)%p.Targets
					tgt := actor.NewPID(remAddrB, fmt.Sprintf("t/%d", tn))
					tname := fmt.Sprintf("t%d", tn)
					if p.Peers == 2 && i%2 == 1 {
						tgt, tname = actor.NewPID(remAddrC, "t/1"), "c.t1"
					}
					var snd *actor.PID
					if p.WithSender && i%2 == 1 {
						snd = actor.NewPID(remAddrA, fmt.Sprintf("x/%d", t))
						if p.SelfSender {
							snd = actor.NewPID(tgt.Address, tgt.ID)
						}
					}
					if p.WithSender && p.SameID {
						snd = actor.NewPID([]string{"10.0.0.9:4000", remAddrA}[i%2], "worker/1")
					}
					vsched.Touch("sends")
					sends = append(sends, remSend{id: id, target: tname, sender: pidStr(snd)})
					if snd == nil {
						a.k.E.Send(tgt, tm(id))
					} else {
						a.k.E.SendWithSender(tgt, tm(id), snd)
					}
				}
			})
		}
		if p.Actor {
			a.k.E.Send(actorSender, "go")
		}
		if p.Request {
			vsched.Go("requester", func() {
				resp := a.k.E.Request(actor.NewPID(remAddrB, "t/1"), tm("req1"), 5*time.Second)
				reqResp = resp
				reqGot, reqErr = resp.Result()
				reqDone = true
			})
		}
		vsched.Quiesce()
		if p.Restart {
			// the peer goes away (every connection to it is lost) and a new node comes up on its address
			b.r.Stop().Wait()
			vsched.Quiesce()
			vsched.BeginSetup()
			b2 = newRemNode(remAddrB, true)
			spawnTargets(b2)
			vsched.EndSetup()
		}
		for i := 0; i < p.Late; i++ {
			id := fmt.Sprintf("late%d", i)
			sends = append(sends, remSend{id: id, target: "t1", late: true})
			a.k.E.Send(actor.NewPID(remAddrB, "t/1"), tm(id))
			vsched.Quiesce()
		}
		if reqResp != nil {
			reqPending = actor.VerifResponsePending(reqResp)
		}
	}
	check := func(r *vsched.Result) []vsched.Violation {
		vs := stdEnd(r, "remote/", "vdrpcserver/")
		if len(vs) > 0 {
			return vs
		}
		vs = append(vs, b.k.serial()...)
		// deliveries on B
		delivered := map[string]int{}
		order := map[string][]string{} // target -> ids in delivery order
		for _, e := range bLog() {
			if e.Kind != "recv" {
				continue
			}
			m, ok := e.Raw.(*remote.TestMessage)
			if !ok {
				continue
			}
			id := string(m.Data)
			if strings.HasPrefix(id, "req") {
				continue
			}
			delivered[id]++
			order[e.Actor] = append(order[e.Actor], id)
			for _, s := range sends {
				if s.id == id {
					if s.target != e.Actor {
						vs = append(vs, V("remote/delivered-to-wrong-target", "%s: message %s for %s delivered to %s", p, id, s.target, e.Actor))
					}
					if s.sender != e.Sender {
						vs = append(vs, V("remote/wrong-sender", "%s: message %s sent with sender %q arrived with %q", p, id, s.sender, e.Sender))
					}
				}
			}
		}
		// dead letters and unreachable events on A
		dead := map[string]int{}
		unreachable := 0
		for _, e := range a.k.Log {
			if e.Kind != "event" {
				continue
			}
			switch ev := e.Raw.(type) {
			case actor.DeadLetterEvent:
				if _, _, msg, ok := remote.VerifUnwrapDeliver(ev.Message); ok {
					if m, ok := msg.(*remote.TestMessage); ok {
						dead[string(m.Data)]++
					}
				}
			case actor.RemoteUnreachableEvent:
				unreachable++
				if ev.ListenAddr != remAddrB {
					vs = append(vs, V("remote/unreachable-event-names-wrong-address", "%s: %s", p, ev.ListenAddr))
				}
			}
		}
		failedAttempts := p.FailDials / 3
		for _, s := range sends {
			d, dl := delivered[s.id], dead[s.id]
			switch {
			case d > 1:
				vs = append(vs, V("remote/message-delivered-twice", "%s: %s delivered %d times; B: %s", p, s.id, d, b.k.LogString()))
			case d == 1 && dl > 0:
				vs = append(vs, V("remote/message-delivered-and-dead-lettered", "%s: %s", p, s.id))
			case dl > 1:
				vs = append(vs, V("remote/message-dead-lettered-twice", "%s: %s dead-lettered %d times", p, s.id, dl))
			case d == 0 && dl == 0:
				sig := "remote/message-lost"
				if failedAttempts > 0 {
					sig = "remote/message-neither-delivered-nor-dead-lettered-after-unreachable"
				}
				vs = append(vs, V(sig, "%s: %s vanished; B: %s; A events: %v", p, s.id, b.k.LogString(), a.k.Events()))
			case dl == 1 && failedAttempts == 0 && !p.Restart:
				vs = append(vs, V("remote/message-dead-lettered-although-peer-reachable", "%s: %s", p, s.id))
			}
		}
		for id := range delivered {
			known := false
			for _, s := range sends {
				known = known || s.id == id
			}
			if !known {
				vs = append(vs, V("remote/unknown-message-delivered", "%s: %s", p, id))
			}
		}
		// same-thread sends to one target arrive in order
		for tgt, ids := range order {
			last := map[string]int{}
			for _, id := range ids {
				var th string
				var n int
				if _, err := fmt.Sscanf(id, "late%d", &n); err == nil {
					th = "late"
				} else if _, err := fmt.Sscanf(id, "a%d", &n); err == nil {
					th = "actor"
				} else {
					var t int
					fmt.Sscanf(id, "%d.%d", &t, &n)
					th = fmt.Sprint(t)
				}
				if l, ok := last[th]; ok && l > n {
					vs = append(vs, V("remote/same-sender-reordered", "%s: target %s received %v", p, tgt, ids))
				}
				last[th] = n
			}
		}
		if p.Restart {
			// losing the established connection is reported once; nothing was in flight, and the
			// sends after the new node came up make a fresh attempt and arrive
			if unreachable != 1 && !p.NoEvents {
				vs = append(vs, V("remote/wrong-number-of-unreachable-events", "%s: %d RemoteUnreachableEvents for one lost connection; events %v", p, unreachable, a.k.Events()))
			}
			for i := 0; i < p.Late; i++ {
				if id := fmt.Sprintf("late%d", i); delivered[id] != 1 {
					vs = append(vs, V("remote/no-fresh-attempt-after-unreachable-episode", "%s: %s sent after the peer came back was not delivered (dead-lettered %d times); dials %d", p, id, dead[id], vnet.DialAttempts(remAddrB)))
				}
			}
		} else if !down(p) {
			if unreachable != 0 {
				vs = append(vs, V("remote/unreachable-event-although-peer-reachable", "%s: %d events", p, unreachable))
			}
		} else {
			// the first connection attempt fails as a whole; later attempts (late sends) succeed or
			// fail according to the remaining budget of failing dials
			if unreachable < 1 || unreachable > failedAttempts {
				vs = append(vs, V("remote/wrong-number-of-unreachable-events", "%s: %d RemoteUnreachableEvents for %d failed connection attempts; events %v", p, unreachable, failedAttempts, a.k.Events()))
			}
			// a late send issued after the episode settled makes a fresh attempt; with the peer up it arrives
			for i := 0; i < p.Late; i++ {
				id := fmt.Sprintf("late%d", i)
				if i >= failedAttempts-1 && delivered[id] != 1 {
					vs = append(vs, V("remote/no-fresh-attempt-after-unreachable-episode", "%s: %s sent after the episode had settled and the peer was up again was not delivered (dead-lettered %d times); dials %d", p, id, dead[id], vnet.DialAttempts(remAddrB)))
				}
			}
		}
		if p.Request {
			m, _ := reqGot.(*remote.TestMessage)
			switch {
			case !reqDone:
				vs = append(vs, V("remote/request-never-returned", "%s", p))
			case down(p):
				// request during an unreachable episode: timeout is acceptable
			case reqErr != nil && m == nil:
				// The requester's timer is a thread like any other: the explorer may let it fire before the round trip
				// has completed (a slow network). The reply must then still have come back to the requester's node,
				// where it finds the response PID gone: exactly one dead letter. Neither result nor dead letter: lost.
				late := 0
				for _, e := range a.k.Log {
					if dl, ok := e.Raw.(actor.DeadLetterEvent); ok && e.Kind == "event" {
						if rm, ok := dl.Message.(*remote.TestMessage); ok && string(rm.Data) == "re:req1" {
							late++
						}
					}
				}
				pending := reqPending
				// ... or it reached the response mailbox at the very moment the timeout was taken (both ready at the
				// select: either answer is accepted, §5 C11) and sits there unread.
				if late+pending != 1 {
					vs = append(vs, V("remote/reply-did-not-reach-requester", "%s: Result() = (%v, %v); the reply came back %d times as a late (dead-lettered) reply and %d times into the response mailbox, want exactly one of the two; events %v", p, reqGot, reqErr, late, pending, a.k.Events()))
				}
			case reqErr != nil || m == nil || string(m.Data) != "re:req1":
				vs = append(vs, V("remote/reply-did-not-reach-requester", "%s: Result() = (%v, %v)", p, reqGot, reqErr))
			}
		}
		return vs
	}
	outcome := func() string {
		if b == nil {
			return ""
		}
		var ds []rparams.Delivery
		for _, e := range bLog() {
			if m, ok := e.Raw.(*remote.TestMessage); ok && e.Kind == "recv" && !strings.HasPrefix(string(m.Data), "req") {
				ds = append(ds, rparams.Delivery{Actor: e.Actor, ID: string(m.Data), Sender: e.Sender})
			}
		}
		var dead []string
		unreachable := 0
		if a != nil {
			for _, e := range a.k.Log {
				if e.Kind == "event" {
					switch x := e.Raw.(type) {
					case actor.RemoteUnreachableEvent:
						unreachable++
					case actor.DeadLetterEvent:
						if _, _, msg, ok := remote.VerifUnwrapDeliver(x.Message); ok {
							if m, ok := msg.(*remote.TestMessage); ok {
								dead = append(dead, string(m.Data))
							}
						}
					}
				}
			}
		}
		req := ""
		if p.Request {
			if m, ok := reqGot.(*remote.TestMessage); ok && reqErr == nil {
				req = string(m.Data)
			} else {
				req = "error"
			}
		}
		return rparams.Record(p, ds, dead, unreachable, req)
	}
	return vsched.Instance{Body: body, Check: check, Outcome: outcome}
}

func down(p remParams) bool { return p.Down() }

func init() {
	up, dn, upT := rparams.Up, rparams.Dn, rparams.UpLarge
	Register(&Job{Name: "C17/remote/peer-up", Prop: "C17", Bound: 1, BoundT: 2, Budget: 60, BudgetT: 900, Shards: 13, DumpOutcomes: true,
		Desc: "two real engines with real Remote/router/writer/reader over the in-memory transport: 1-2 sender threads x 1-3 messages to 1-2 actors on the peer (with/without sender PID), an actor sender, a request/response pair, 0-2 failing dial attempts inside the writer's retry loop: exactly-once, right target and sender, per-sender order, reply reaches the requester, no unreachable event",
		Make: func() vsched.Instance { return engRemote(up) }})
	Register(&Job{Name: "C17/remote/peer-down", Prop: "C17", Bound: 1, BoundT: 2, Budget: 35, BudgetT: 900, Shards: 4, DumpOutcomes: true,
		Desc: "the peer refuses all 3 dial attempts of the first (and second) connection attempt: RemoteUnreachableEvent once per failed attempt, every message handed to that attempt dead-lettered exactly once (conservation: delivered xor dead-lettered), a send after the episode settled triggers a fresh dial and arrives once the peer is up",
		Make: func() vsched.Instance { return engRemote(dn) }})
	Register(&Job{Name: "C17/remote/peer-up-large", Prop: "C17", Tier: "thorough", Bound: 1, BoundT: 2, Budget: 50, BudgetT: 900, Shards: 19, DumpOutcomes: true,
		Desc: "as peer-up with 3 senders / 3 messages per sender / request + actor sender", Make: func() vsched.Instance { return engRemote(upT) }})
}
