package scen

import (
	"fmt"

	"github.com/anthdm/hollywood/zzverif/vsched"
)

func init() {
	// ---- C01 engine level
	{
		var vq, vt []engDelivParams
		for _, size := range []int{1, 2} {
			vq = append(vq, engDelivParams{Size: size, NThreads: 2, PerT: 2})
			vq = append(vq, engDelivParams{Size: size, NThreads: 2, PerT: 1, Chan: true})
			vq = append(vq, engDelivParams{Size: size, NThreads: 1, PerT: 2, ActorSnd: true})
		}
		for _, size := range []int{1, 2, 3} {
			vt = append(vt, engDelivParams{Size: size, NThreads: 2, PerT: 2, Chan: true, ActorSnd: true})
			vt = append(vt, engDelivParams{Size: size, NThreads: 3, PerT: 1, Chan: true})
			vt = append(vt, engDelivParams{Size: size, NThreads: 2, PerT: 3})
		}
		Register(&Job{Name: "C01/engine/senders", Prop: "C01", Bound: 2, BoundT: 3, Budget: 40, BudgetT: 600,
			Desc: "public API: goroutine senders (with/without sender PID), an actor sending twice from one Receive, a cross-thread happens-before edge through a channel; inbox sizes 1-2",
			Make: func() vsched.Instance { return engDelivery(vq) }})
		Register(&Job{Name: "C01/engine/senders-large", Prop: "C01", Tier: "thorough", Bound: 2, BoundT: 3, Budget: 40, BudgetT: 900,
			Desc: "public API: 2-3 goroutine senders + actor sender + channel edge; inbox sizes 1-3",
			Make: func() vsched.Instance { return engDelivery(vt) }})
		// scaled batch build (messageBatchSize=2) so that batch splitting happens inside small scenarios
		Register(&Job{Name: "C01/engine/senders-batch2", Prop: "C01", Bound: 2, BoundT: 3, Budget: 40, BudgetT: 600,
			Desc: "same driver on a build with messageBatchSize rewritten to 2 (declared parameter change): backlog split into batches",
			Make: func() vsched.Instance { return engDelivery(vq) }})
		for _, size := range []int{1, 3} {
			ip := inboxParams{T: 2, M: 3, Size: size, StartMode: 2}
			Register(&Job{Name: fmt.Sprintf("C01/inbox-batch2/%s", ip), Prop: "C01", Bound: 2, BoundT: 3, Budget: 25, BudgetT: 300,
				Desc: "real Inbox, messageBatchSize=2, 6 messages queued by 2 threads before Start: the backlog is split into 3 batches",
				Make: func() vsched.Instance { return inboxInstance(ip) }})
		}
	}
	// ---- C02 / C04 lifecycle races
	{
		vq := []lifeRaceParams{
			{Senders: 1, PerT: 2, Stopper: 0, CrashMsg: -1, Yield: true},
			{Senders: 2, PerT: 1, Stopper: 0, CrashMsg: 0, Yield: true},
			{Senders: 1, PerT: 2, Stopper: 1, CrashMsg: -1, Yield: true},
			{Senders: 1, PerT: 2, Stopper: 2, CrashMsg: -1, Yield: true},
			{Senders: 1, PerT: 3, Stopper: 0, CrashMsg: 0, Yield: true}, // two messages queued behind the one that crashes
		}
		vt := append([]lifeRaceParams{
			{Senders: 2, PerT: 2, Stopper: 0, CrashMsg: 1, Yield: true},
			{Senders: 2, PerT: 2, Stopper: 1, CrashMsg: -1, Yield: true},
			{Senders: 2, PerT: 1, Stopper: 2, CrashMsg: -1, Yield: true},
		}, vq...)
		Register(&Job{Name: "C02/engine/lifecycle-race", Prop: "C02", Bound: 2, BoundT: 3, Budget: 40, BudgetT: 600,
			Desc: "spawner thread (Initialized/Started on the caller), senders to the pre-computed PID, Poison/Stop caller, receiver that panics once (restart on the worker); receivers yield inside Receive",
			Make: func() vsched.Instance { return engLifecycleRace(vq) }})
		Register(&Job{Name: "C02/engine/lifecycle-race-large", Prop: "C02", Tier: "thorough", Bound: 2, BoundT: 3, Budget: 40, BudgetT: 900,
			Desc: "as lifecycle-race with 2 senders x 2 messages", Make: func() vsched.Instance { return engLifecycleRace(vt) }})
		noY := func(v []lifeRaceParams) []lifeRaceParams {
			out := append([]lifeRaceParams{}, v...)
			for i := range out {
				out[i].Yield = false
			}
			return out
		}
		vq4, vt4 := noY(vq), noY(vt)
		Register(&Job{Name: "C04/engine/spawn-race", Prop: "C04", Bound: 2, BoundT: 3, Budget: 40, BudgetT: 600,
			Desc: "Spawn racing with senders to the pre-computed PID and a Poison/Stop caller: every send delivered (after Started) or dead-lettered, never both/neither; lifecycle shape per incarnation",
			Make: func() vsched.Instance { return engLifecycleRace(vq4) }})
		Register(&Job{Name: "C04/engine/spawn-race-large", Prop: "C04", Tier: "thorough", Bound: 2, BoundT: 3, Budget: 40, BudgetT: 900,
			Desc: "as spawn-race with 2 senders x 2 messages", Make: func() vsched.Instance { return engLifecycleRace(vt4) }})
	}
	// ---- C02 / C05: restart with late senders on a quiet engine
	{
		var vq, vt []restartLateParams
		for _, d := range []bool{false, true} {
			vq = append(vq, restartLateParams{Tail: 1, Late: 1, Third: true, Delay: d, Size: 2})
			vq = append(vq, restartLateParams{Tail: 0, Late: 2, Third: true, Delay: d, Size: 1})
			vq = append(vq, restartLateParams{Tail: 1, Late: 1, Third: true, Delay: d, Size: 2, Internal: true})
			vt = append(vt, restartLateParams{Tail: 2, Late: 2, Third: true, Delay: d, Size: 1})
			vt = append(vt, restartLateParams{Tail: 1, Late: 2, Third: false, Delay: d, Size: 2})
		}
		vt = append(vt, vq...)
		for _, prop := range []string{"C02", "C03"} {
			Register(&Job{Name: prop + "/engine/busy-worker-throughput3", Prop: prop, Bound: 2, BoundT: 3, Budget: 40, BudgetT: 600,
				Desc: "build with actor.defaultThroughput rewritten to 3 (declared parameter change): an actor that sends itself the next tick from every tick (8 ticks) plus an outside sender (2 messages), so that one worker runs past the throughput budget without ever finding the inbox empty; quiet engine, receivers yield: one Receive at a time, each after the previous, every message once, idle and empty at the end",
				Make: func() vsched.Instance { return engSelfSend(8, 2) }})
		}
		for _, prop := range []string{"C02", "C08"} {
			Register(&Job{Name: prop + "/engine/slow-child", Prop: prop, Bound: 2, BoundT: 3, Budget: 40, BudgetT: 600,
				Desc: "a parent is poisoned/stopped while its child is busy with one message for 5 s of virtual time: the parent waits; the child's Receive calls do not overlap, its Stopped comes after the message it was busy with, exactly once, and before the parent's",
				Make: func() vsched.Instance { return engSlowChild([]int{1, 2}) }})
		}
		for _, prop := range []string{"C01", "C02", "C05"} {
			Register(&Job{Name: prop + "/engine/restart-late-senders", Prop: prop, Bound: 2, BoundT: 3, Budget: 40, BudgetT: 600,
				Desc: "message 0 panics once with 0-1 messages queued behind it; the crashing Receive starts a thread sending 1-2 more messages during the restart (delay 0 and >0), the first delivery to the new incarnation starts a third sender; quiet engine (event stream detached), receivers yield inside Receive: one worker at a time, each Receive after the previous, exactly-once, order, new incarnation gets everything behind the failed message",
				Make: func() vsched.Instance { return engRestartLate(vq) }})
			Register(&Job{Name: prop + "/engine/restart-late-senders-large", Prop: prop, Tier: "thorough", Bound: 2, BoundT: 3, Budget: 40, BudgetT: 900,
				Desc: "as restart-late-senders with up to 2 queued + 2 late messages", Make: func() vsched.Instance { return engRestartLate(vt) }})
		}
	}
	// ---- C10
	{
		vq := []dupParams{{Spawners: 2}, {Spawners: 2, Other: true}, {Spawners: 1, Pending: 2}, {Spawners: 2, Child: true}}
		vt := append([]dupParams{{Spawners: 3}, {Spawners: 2, Pending: 2, Other: true}, {Spawners: 3, Child: true}}, vq...)
		Register(&Job{Name: "C10/engine/concurrent-spawn", Prop: "C10", Bound: 3, BoundT: 99, Budget: 40, BudgetT: 900,
			Desc: "2 threads Spawn the same id concurrently (+ a different id, + an incumbent with pending messages, + duplicate SpawnChild): exactly one producer runs, losers publish ActorDuplicateIdEvent, incumbent undisturbed",
			Make: func() vsched.Instance { return engDuplicate(vq) }})
		Register(&Job{Name: "C10/engine/concurrent-spawn-3", Prop: "C10", Tier: "thorough", Bound: 2, BoundT: 3, Budget: 40, BudgetT: 900,
			Desc: "3 concurrent spawners of one id", Make: func() vsched.Instance { return engDuplicate(vt) }})
		var rr []respawnParams
		for _, ch := range []int{1, 2} {
			for _, st := range []int{1, 2} {
				rr = append(rr, respawnParams{Children: ch, Stop: st, Probe: ch == 1})
			}
		}
		Register(&Job{Name: "C10/engine/respawn-while-stopping", Prop: "C10", Bound: 2, BoundT: 3, Budget: 40, BudgetT: 600, Shards: 4,
			Desc: "an actor with 1-2 children is poisoned/stopped while another thread spawns the same id again and a third polls GetPID (quiet engine): as long as a child of the old actor is alive the old actor has not stopped, so the id is still taken - no second Producer run, GetPID non-nil",
			Make: func() vsched.Instance { return engRespawnRace(rr) }})
		var sw []swrParams
		for _, st := range []int{1, 2} {
			for _, o := range []int{0, 1, 2} {
				sw = append(sw, swrParams{Stop: st, Others: o}, swrParams{Stop: st, Others: o, Child: true})
			}
		}
		for _, st := range []int{1, 2} {
			sw = append(sw, swrParams{Stop: st, StopPanics: true}, swrParams{Stop: st, StopPanics: true, Child: true}, swrParams{Stop: st, Probe: true}, swrParams{Stop: st, Probe: true, Child: true})
		}
		Register(&Job{Name: "C10/engine/stop-wait-respawn", Prop: "C10", Bound: 2, BoundT: 3, Budget: 40, BudgetT: 600, Shards: 5,
			Desc: "stop/poison an actor (root or child), wait for the stop context, spawn the same id again at once while 0-2 other pending stop requests are still being acknowledged: the producer of the respawn runs once, no ActorDuplicateIdEvent, the new actor owns the id (GetPID, delivery); also with a receiver that panics in its Stopped handler, and with a receiver that, inside its Stopped handler, compares GetPID for its own id with the outcome of a spawn of that id (taken exactly while registered)",
			Make: func() vsched.Instance { return engStopWaitRespawn(sw) }})
		Register(&Job{Name: "C10/engine/respawn-histories", Prop: "C10", Bound: 0, BoundT: 1, Budget: 40, BudgetT: 900,
			Desc: "all sequences of length<=4 (quick) over {spawn a, spawn b, stop+wait a, poison+wait a, send a, getpid a} against a map[id]incarnation model, quiescent steps",
			Make: func() vsched.Instance { return engRespawn(4) }})
		Register(&Job{Name: "C10/engine/respawn-histories-5", Prop: "C10", Tier: "thorough", Bound: 0, BoundT: 0, Budget: 40, BudgetT: 1200,
			Desc: "all sequences of length<=5 over the same alphabet", Make: func() vsched.Instance { return engRespawn(5) }})
	}
	// ---- C09
	{
		var clean, gone, stops, rem []dlParams
		for tgt := 0; tgt <= 3; tgt++ {
			for msg := 0; msg <= 2; msg++ {
				for _, snd := range []bool{false, true} {
					clean = append(clean, dlParams{Target: tgt, Msg: msg, Sender: snd, Subs: msg % 2, Threads: 1, PerT: 2})
					gone = append(gone, dlParams{Target: tgt, Msg: msg, Sender: snd, Subs: 2 + (tgt+msg)%2, Threads: 1, PerT: 1})
				}
			}
			for _, op := range []int{1, 2, 3} {
				stops = append(stops, dlParams{Target: tgt, Op: op, Subs: op % 2, Threads: 1, PerT: 1 + op%2, Sender: op == 3})
				stops = append(stops, dlParams{Target: tgt, Op: op, Subs: 3, Threads: 1, PerT: 1})
			}
			for _, subs := range []int{0, 2, 3} {
				rem = append(rem, dlParams{Target: tgt, Msg: tgt % 3, Subs: subs, Threads: 1, PerT: 1, Remote: true, Sender: tgt == 1})
			}
			rem = append(rem, dlParams{Target: tgt, Op: 1, Subs: 2, Threads: 1, PerT: 1, Remote: true})
		}
		conc := []dlParams{{Target: 1, Threads: 2, PerT: 1, Subs: 1}, {Target: 2, Threads: 2, PerT: 2, Subs: 0, Sender: true}, {Target: 3, Threads: 2, PerT: 1, Subs: 1},
			{Target: 1, Threads: 2, PerT: 1, Subs: 3, Op: 1}, {Target: 2, Threads: 2, PerT: 1, Subs: 0, Op: 2},
			{Target: 1, Threads: 1, PerT: 2, Subs: 0, Churn: true}, {Target: 2, Threads: 1, PerT: 1, Subs: 1, Churn: true, Sender: true}, {Target: 1, Threads: 1, PerT: 1, Subs: 0, Op: 1, Churn: true}}
		for tgt := 0; tgt <= 3; tgt++ {
			clean = append(clean, dlParams{Target: tgt, Msg: tgt % 3, Sender: tgt%2 == 0, Subs: tgt % 2, Threads: 1, PerT: 1, Resub: true})
			clean = append(clean, dlParams{Target: tgt, Msg: 3, Sender: tgt%2 == 1, Subs: tgt % 2, Threads: 1, PerT: 2})
		}
		Register(&Job{Name: "C09/engine/targets-x-messages", Prop: "C09", Bound: 1, BoundT: 2, Budget: 40, BudgetT: 600,
			Desc: "targets {nil, never spawned, stopped, foreign address} x messages {int, string, pointer} x sender {nil, P} x {1,2} monitors, 2 sends each, then a probe send: exactly one event per undeliverable send at every monitor, event stream intact afterwards",
			Make: func() vsched.Instance { return engDeadLetter(clean) }})
		Register(&Job{Name: "C09/engine/stop-requests-and-sendlocal", Prop: "C09", Bound: 1, BoundT: 2, Budget: 40, BudgetT: 600, Shards: 4,
			Desc: "Poison / Stop / SendLocal aimed at nil, never spawned, stopped and foreign-address PIDs (1-2 requests), with 1-2 monitors or a subscriber that stops just before: exactly one DeadLetterEvent per request, returned context already done, no panic, event stream intact",
			Make: func() vsched.Instance { return engDeadLetter(stops) }})
		Register(&Job{Name: "C09/engine/concurrent-senders", Prop: "C09", Bound: 2, BoundT: 3, Budget: 40, BudgetT: 600, Shards: 8,
			Desc: "2 sender threads x 1-2 sends / stop requests to unregistered or foreign targets, 1-2 monitors, a subscriber stopping just before; 1 sender while another thread spawns and poisons an unrelated actor (registry writers racing the failed lookups: no sender may block)",
			Make: func() vsched.Instance { return engDeadLetter(conc) }})
		Register(&Job{Name: "C09/engine/gone-subscriber", Prop: "C09", Bound: 1, BoundT: 2, Budget: 40, BudgetT: 600, Horizon: 6000,
			Desc: "as targets-x-messages with one monitor plus a subscriber that stopped without unsubscribing (earlier, or right before the sends: the monitor must still see its ActorStoppedEvent): finiteness and exactly-once at the live monitor",
			Make: func() vsched.Instance { return engDeadLetter(gone) }})
		var far []dlParams
		for tgt := 0; tgt <= 3; tgt++ {
			far = append(far, dlParams{Target: tgt, Msg: tgt % 3, Subs: 4, Threads: 1, PerT: 1})
			far = append(far, dlParams{Target: tgt, Msg: tgt % 3, Subs: 5, Threads: 1, PerT: 1})
		}
		Register(&Job{Name: "C09/engine/foreign-subscriber", Prop: "C09", Bound: 1, BoundT: 2, Budget: 40, BudgetT: 600, Horizon: 6000,
			Desc: "one monitor plus one or two subscribers whose PIDs have foreign addresses (two nodes), on an engine without remote: finiteness and exactly-once at the live monitor",
			Make: func() vsched.Instance { return engDeadLetter(far) }})
		Register(&Job{Name: "C09/engine/with-remote", Prop: "C09", Bound: 1, BoundT: 2, Budget: 40, BudgetT: 600, Horizon: 6000, Shards: 4,
			Desc: "the same on an engine that has a remote (address is not \"local\"; outbound messages captured by a pool Remoter): local misses still dead-letter once, foreign targets are handed to the remote without event, a gone subscriber does not start a feedback loop",
			Make: func() vsched.Instance { return engDeadLetter(rem) }})
	}
	// ---- C11
	{
		var clean, multi []reqParams
		for _, k := range []int{0, 1} {
			clean = append(clean, reqParams{Requesters: 1, Replies: k}, reqParams{Requesters: 2, Replies: k}, reqParams{Requesters: 2, Replies: k, TwoTargets: true})
		}
		clean = append(clean, reqParams{Requesters: 1, Replies: 1, SlowReply: true}, reqParams{Requesters: 1, Replies: 1, LateReply: true}, reqParams{Requesters: 2, Replies: 0, LateReply: true})
		clean = append(clean, reqParams{Requesters: 1, Replies: 1, LateResult: true}, reqParams{Requesters: 2, Replies: 1, LateResult: true, TwoTargets: true}, reqParams{Requesters: 1, Replies: 1, Second: true})
		for _, k := range []int{2, 3} {
			multi = append(multi, reqParams{Requesters: 1, Replies: k}, reqParams{Requesters: 2, Replies: k, TwoTargets: true}, reqParams{Requesters: 1, Replies: k, SlowReply: true}, reqParams{Requesters: 1, Replies: k, Second: true})
		}
		big := []reqParams{{Requesters: 3, Replies: 1}, {Requesters: 3, Replies: 1, TwoTargets: true}, {Requesters: 2, Replies: 1, SlowReply: true, TwoTargets: true}}
		Register(&Job{Name: "C11/engine/request-reply", Prop: "C11", Bound: 2, BoundT: 3, Budget: 40, BudgetT: 600,
			Desc: "1-2 concurrent requesters, echo actor(s) replying 0 or 1 times, before/after the (virtual) timeout, late replies after Result returned",
			Make: func() vsched.Instance { return engRequest(clean) }})
		Register(&Job{Name: "C11/engine/multi-reply", Prop: "C11", Bound: 2, BoundT: 3, Budget: 40, BudgetT: 600,
			Desc: "responders that reply 2 or 3 times to one request",
			Make: func() vsched.Instance { return engRequest(multi) }})
		odd := []reqParams{{Requesters: 1, Replies: 1, Second: true, Poke: true}, {Requesters: 1, Replies: 0, Second: true, Poke: true},
			{Requesters: 1, Replies: 1, ViaActor: true}, {Requesters: 1, Replies: 0, ViaActor: true}, {Requesters: 1, Replies: 1, ViaActor: true, SlowReply: true},
			{Requesters: 1, Replies: 1, Hedge: true}, {Requesters: 2, Replies: 1, Hedge: true}}
		Register(&Job{Name: "C11/engine/odd-responders-and-requesters", Prop: "C11", Bound: 2, BoundT: 3, Budget: 40, BudgetT: 600, Shards: 7,
			Desc: "a responder that calls Respond for a sender-less message while a request to it is pending (no addressee: must not reach that request); a request issued with Context.Request from an actor spawned WithContext(cancelled) (its own context is not the request's timeout); a request forwarded to two replicas that both Respond (two goroutines race for one response PID: one reply wins, the other dead-letters once, nobody blocks)",
			Make: func() vsched.Instance { return engRequest(odd) }})
		Register(&Job{Name: "C11/engine/three-requesters", Prop: "C11", Tier: "thorough", Bound: 2, BoundT: 3, Budget: 40, BudgetT: 900,
			Desc: "3 concurrent requesters", Make: func() vsched.Instance { return engRequest(big) }})
	}
	// ---- C12
	{
		Register(&Job{Name: "C12/engine/sub-unsub-bcast", Prop: "C12", Bound: 0, BoundT: 1, Budget: 40, BudgetT: 600,
			Desc: "all sequences of length<=4 over {sub(pa), sub(pb), unsub(pa), unsub(pb), bcast} from one driver; reference model = set of subscribed PID values",
			Make: func() vsched.Instance { return engEventSeq(4, false) }})
		Register(&Job{Name: "C12/engine/sub-unsub-bcast-equal-pids", Prop: "C12", Bound: 0, BoundT: 1, Budget: 40, BudgetT: 600,
			Desc: "all sequences of length<=4 over {sub, unsub} x {pa, pb, pa' (equal value, distinct object)} + bcast",
			Make: func() vsched.Instance { return engEventSeq(4, true) }})
		Register(&Job{Name: "C12/engine/sub-unsub-bcast-foreign-pid", Prop: "C12", Bound: 0, BoundT: 1, Budget: 40, BudgetT: 600,
			Desc: "all sequences of length<=4 over {sub, unsub} x {pa, pb, pa', pf (the id of pa with a foreign address: a different subscriber)} + bcast",
			Make: func() vsched.Instance { return engEventSeqFrom(4, true, true, false) }})
		Register(&Job{Name: "C12/engine/sub-unsub-bcast-from-subscribed", Prop: "C12", Bound: 0, BoundT: 1, Budget: 40, BudgetT: 600,
			Desc: "all sequences of length<=4 over {sub, unsub} x {pa, pb, pa'} + bcast starting from the state in which pa and pb are already subscribed (non-initial start)",
			Make: func() vsched.Instance { return engEventSeqFrom(4, true, false, true) }})
		Register(&Job{Name: "C12/engine/sub-unsub-bcast-5", Prop: "C12", Tier: "thorough", Bound: 0, BoundT: 0, Budget: 40, BudgetT: 900,
			Desc: "all sequences of length<=5 incl. equal PIDs in distinct objects", Make: func() vsched.Instance { return engEventSeq(5, true) }})
		Register(&Job{Name: "C12/engine/concurrent-broadcasters", Prop: "C12", Bound: 2, BoundT: 3, Budget: 40, BudgetT: 600,
			Desc: "2 subscribers, 2 concurrent broadcasters x 2 events: exactly once each, per-broadcaster order",
			Make: func() vsched.Instance { return engEventConc(2, 2) }})
		Register(&Job{Name: "C12/engine/subscriber-dies", Prop: "C12", Bound: 1, BoundT: 2, Budget: 40, BudgetT: 600,
			Desc: "three subscribers subscribed in each of the 6 orders, the middle-named one stops without unsubscribing, then two broadcasts: the two live subscribers each get its ActorStoppedEvent and both broadcasts exactly once, in order",
			Make: func() vsched.Instance { return engEventDyingSubscriber() }})
		Register(&Job{Name: "C12/engine/lifecycle-events", Prop: "C12", Bound: 1, BoundT: 3, Budget: 40, BudgetT: 600,
			Desc: "monitor subscribed while an actor is spawned, crashes+restarts, a duplicate id is spawned, a dead letter is sent and the actor is poisoned: one event of the right type per occurrence",
			Make: func() vsched.Instance { return engEngineEvents() }})
	}
	// ---- C08
	{
		var clean, big []treeParams
		trig := map[int][]treeParams{}
		for _, sh := range [][2]int{{1, 1}, {1, 2}, {2, 1}} {
			for _, st := range []int{1, 2} {
				for _, ex := range []int{0, 4, 6, 7, 8} {
					clean = append(clean, treeParams{Depth: sh[0], Fan: sh[1], Stop: st, Extra: ex})
				}
				for _, ex := range []int{1, 2, 3, 5} {
					trig[ex] = append(trig[ex], treeParams{Depth: sh[0], Fan: sh[1], Stop: st, Extra: ex})
				}
			}
		}
		for _, sh := range [][2]int{{1, 3}, {2, 2}} {
			for _, ex := range []int{0, 4, 6} {
				big = append(big, treeParams{Depth: sh[0], Fan: sh[1], Stop: 1, Extra: ex})
			}
		}
		Register(&Job{Name: "C08/engine/tree-shutdown", Prop: "C08", Bound: 1, BoundT: 2, Budget: 45, BudgetT: 900,
			Desc: "tree shapes 1x1, 1x2, 2x1; root stopped by Poison or Stop; before that (quiescent) a leaf stops itself while Children() is queried, a leaf or the root crashes once and restarts: descendants stop and unregister first, Parent() correct, Children() = live children, no nil entry",
			Make: func() vsched.Instance { return engTree(clean) }})
		Register(&Job{Name: "C08/engine/tree-shutdown-large", Prop: "C08", Tier: "thorough", Bound: 1, BoundT: 2, Budget: 45, BudgetT: 900,
			Desc: "tree shapes 1x3, 2x2", Make: func() vsched.Instance { return engTree(big) }})
		var odd []treeParams
		for _, sh := range [][2]int{{1, 1}, {1, 2}, {2, 1}} {
			for _, st := range []int{1, 2} {
				for _, ex := range []int{9, 10, 11, 12, 13} {
					odd = append(odd, treeParams{Depth: sh[0], Fan: sh[1], Stop: st, Extra: ex})
				}
			}
		}
		Register(&Job{Name: "C08/engine/tree-shutdown-awkward-children", Prop: "C08", Bound: 1, BoundT: 2, Budget: 45, BudgetT: 900, Shards: 10,
			Desc: "tree shapes 1x1, 1x2, 2x1; a leaf panics inside its final Stopped handler; the whole tree is spawned WithContext(an already cancelled context); a leaf that was poisoned by a third party is still inside its Stopped handler when the root's shutdown reaches it: descendants have finished handling Stopped and are unregistered before their parent handles Stopped and before the root's stop context is done, nothing hangs",
			Make: func() vsched.Instance { return engTree(odd) }})
		names := map[int][2]string{
			1: {"child-self-stop-races-shutdown", "trigger:D22"}, 2: {"child-crash-races-shutdown", "trigger:D4"},
			3: {"third-party-poison-races-shutdown", "trigger:D3"}, 5: {"child-max-restarts-races-shutdown", "trigger:D3"},
		}
		descs := map[int]string{
			1: "a leaf poisons itself while the root shuts down", 2: "a leaf panics once on a message while the root shuts down (the message may sit behind the parent's pill)",
			3: "a third party poisons a leaf while the root shuts down", 5: "a leaf exceeds max restarts while the root shuts down",
		}
		for _, ex := range []int{1, 2, 3, 5} {
			v := trig[ex]
			Register(&Job{Name: "C08/engine/" + names[ex][0], Prop: "C08", Family: "regression:" + names[ex][1][8:] + " (fixed)", Bound: 1, BoundT: 2, Budget: 45, BudgetT: 600,
				Desc: "tree shapes 1x1, 1x2, 2x1: " + descs[ex], Make: func() vsched.Instance { return engTree(v) }})
		}
	}
}
