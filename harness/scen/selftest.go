package scen

// Self-test of the exploration engine: tiny programs whose full set of behaviours is known.
// `./check selftest` runs them and compares with the expectation encoded in Family:
//   expect:clean:<n>   no violation, exploration complete, exactly n distinct outcomes
//   expect:<signature> that violation is found (at the job's bound)
// A harness that has never failed has not been shown to work: these are the engine's own planted
// bugs (lost update, lock-order inversion, recursive read lock against a writer, a timer racing a
// send), next to their correct twins, which must come out clean - so that neither a blind nor a
// trigger-happy scheduler goes unnoticed.

import (
	"fmt"
	"sort"
	"strings"
	"time"

	"github.com/anthdm/hollywood/zzverif/vsched"
)

func selfInstance(body func(out *[]string), oracle func(out []string) []vsched.Violation) vsched.Instance {
	var out []string
	return vsched.Instance{
		Body: func() { out = nil; vsched.EndSetup(); body(&out) },
		Check: func(r *vsched.Result) []vsched.Violation {
			if vs := stdEnd(r); len(vs) > 0 {
				return vs
			}
			if oracle == nil {
				return nil
			}
			return oracle(out)
		},
		Outcome: func() string { return strings.Join(out, ",") },
	}
}

func init() {
	reg := func(name, expect string, bound int, desc string, mk func() vsched.Instance) {
		Register(&Job{Name: "SELF/" + name, Prop: "SELF", Family: "expect:" + expect, Bound: bound, BoundT: bound, Budget: 20, BudgetT: 20, Desc: desc, Make: mk})
	}
	// 1. lost update: load; store(v+1) by two threads
	reg("lost-update", "selftest/lost-update", 1, "two threads increment a counter with a separate load and store: the final value 1 is reachable with one preemption", func() vsched.Instance {
		var x int32
		return selfInstance(func(out *[]string) {
			x = 0
			for t := 0; t < 2; t++ {
				vsched.Go("inc", func() { v := vsched.LoadInt32(&x); vsched.StoreInt32(&x, v+1) })
			}
			vsched.Quiesce()
			*out = append(*out, fmt.Sprint(x))
		}, func(out []string) []vsched.Violation {
			if out[0] != "2" {
				return []vsched.Violation{V("selftest/lost-update", "final value %s", out[0])}
			}
			return nil
		})
	})
	reg("atomic-add", "clean:1", 2, "the same with an atomic add: always 2", func() vsched.Instance {
		var x int32
		return selfInstance(func(out *[]string) {
			x = 0
			for t := 0; t < 2; t++ {
				vsched.Go("inc", func() { vsched.AddInt32(&x, 1) })
			}
			vsched.Quiesce()
			*out = append(*out, fmt.Sprint(x))
		}, func(out []string) []vsched.Violation {
			if out[0] != "2" {
				return []vsched.Violation{V("selftest/lost-update", "final value %s", out[0])}
			}
			return nil
		})
	})
	// 2. lock order inversion
	reg("lock-order-inversion", "deadlock", 1, "thread 1 locks a then b, thread 2 locks b then a", func() vsched.Instance {
		return selfInstance(func(out *[]string) {
			var a, b vsched.Mutex
			vsched.Go("ab", func() { a.Lock(); b.Lock(); b.Unlock(); a.Unlock() })
			vsched.Go("ba", func() { b.Lock(); a.Lock(); a.Unlock(); b.Unlock() })
			vsched.Quiesce()
		}, nil)
	})
	reg("lock-order-consistent", "clean:1", 2, "both threads lock a then b", func() vsched.Instance {
		return selfInstance(func(out *[]string) {
			var a, b vsched.Mutex
			for t := 0; t < 2; t++ {
				vsched.Go("ab", func() { a.Lock(); b.Lock(); b.Unlock(); a.Unlock() })
			}
			vsched.Quiesce()
		}, nil)
	})
	// 3. recursive read lock against a writer (sync.RWMutex is writer-preferring)
	reg("rwmutex-recursive-rlock", "deadlock", 2, "a reader takes the read lock twice, nested, while a writer arrives in between", func() vsched.Instance {
		return selfInstance(func(out *[]string) {
			var m vsched.RWMutex
			vsched.Go("reader", func() { m.RLock(); m.RLock(); m.RUnlock(); m.RUnlock() })
			vsched.Go("writer", func() { m.Lock(); m.Unlock() })
			vsched.Quiesce()
		}, nil)
	})
	reg("rwmutex-sequential-rlock", "clean:1", 2, "the reader takes the read lock twice, one after the other", func() vsched.Instance {
		return selfInstance(func(out *[]string) {
			var m vsched.RWMutex
			vsched.Go("reader", func() { m.RLock(); m.RUnlock(); m.RLock(); m.RUnlock() })
			vsched.Go("writer", func() { m.Lock(); m.Unlock() })
			vsched.Quiesce()
		}, nil)
	})
	// 4. all interleavings of two critical sections are seen, and only those
	reg("two-critical-sections", "clean:2", 1, "two threads append their id under a mutex: exactly the outcomes 0,1 and 1,0", func() vsched.Instance {
		return selfInstance(func(out *[]string) {
			var mu vsched.Mutex
			for t := 0; t < 2; t++ {
				t := t
				vsched.Go("cs", func() { mu.Lock(); *out = append(*out, fmt.Sprint(t)); mu.Unlock() })
			}
			vsched.Quiesce()
		}, nil)
	})
	reg("three-critical-sections", "clean:6", 2, "three threads: all 6 orders", func() vsched.Instance {
		return selfInstance(func(out *[]string) {
			var mu vsched.Mutex
			for t := 0; t < 3; t++ {
				t := t
				vsched.Go("cs", func() { mu.Lock(); *out = append(*out, fmt.Sprint(t)); mu.Unlock() })
			}
			vsched.Quiesce()
		}, nil)
	})
	// 5. virtual time: a timer racing a channel send - both winners are explored; a timer that is
	// later than another never fires first
	reg("timer-vs-send", "clean:2", 1, "select between a 10 ms timer and a channel another thread sends on after sleeping 10 ms: both winners", func() vsched.Instance {
		return selfInstance(func(out *[]string) {
			ch := make(chan int, 1)
			vsched.Go("sender", func() { vsched.Sleep(10 * time.Millisecond); vsched.Send(ch, 1) })
			tm := vsched.NewTimer(10 * time.Millisecond)
			switch vsched.Select(false, vsched.RecvCase(tm.C), vsched.RecvCase[int](ch)) {
			case 0:
				*out = append(*out, "timer")
			case 1:
				*out = append(*out, "send")
			}
			vsched.Quiesce()
		}, nil)
	})
	reg("two-timers", "clean:2", 2, "a 5 ms and a 10 ms timer in one select: the early one wins, or - the waiting thread was not scheduled before the second deadline, both are due - either", func() vsched.Instance {
		return selfInstance(func(out *[]string) {
			a, b := vsched.NewTimer(5*time.Millisecond), vsched.NewTimer(10*time.Millisecond)
			switch vsched.Select(false, vsched.RecvCase(b.C), vsched.RecvCase(a.C)) {
			case 0:
				*out = append(*out, "late-first")
			case 1:
				*out = append(*out, "early-first")
			}
			vsched.Quiesce()
		}, nil)
	})
	reg("sleep-order", "clean:1", 2, "Sleep(5 ms) then Sleep(10 ms): virtual time advances by at least the requested amount each time and never runs backwards", func() vsched.Instance {
		return selfInstance(func(out *[]string) {
			t0 := vsched.VNow()
			vsched.Sleep(5 * time.Millisecond)
			t1 := vsched.VNow()
			vsched.Sleep(10 * time.Millisecond)
			t2 := vsched.VNow()
			if t1-t0 >= int64(5*time.Millisecond) && t2-t1 >= int64(10*time.Millisecond) {
				*out = append(*out, "monotone")
			} else {
				*out = append(*out, fmt.Sprint("slept ", t1-t0, " ", t2-t1))
			}
		}, func(out []string) []vsched.Violation {
			if out[0] != "monotone" {
				return []vsched.Violation{V("selftest/virtual-time", "%v", out)}
			}
			return nil
		})
	})
	reg("afterfunc", "clean:2", 1, "AfterFunc(5 ms) appends on its own thread while the caller, after sleeping 5 ms, appends too: both orders, each exactly once", func() vsched.Instance {
		return selfInstance(func(out *[]string) {
			var mu vsched.Mutex
			vsched.AfterFunc(5*time.Millisecond, func() { mu.Lock(); *out = append(*out, "f"); mu.Unlock() })
			vsched.Sleep(5 * time.Millisecond)
			mu.Lock()
			*out = append(*out, "main")
			mu.Unlock()
			vsched.Quiesce()
		}, func(out []string) []vsched.Violation {
			if len(out) != 2 {
				return []vsched.Violation{V("selftest/afterfunc", "%v", out)}
			}
			return nil
		})
	})
	// 6. map iteration order is a choice
	reg("map-order", "clean:2", 1, "ranging over a two-entry map through the hooked iteration: both orders", func() vsched.Instance {
		return selfInstance(func(out *[]string) {
			m := map[string]int{"a": 1, "b": 2}
			ks := vsched.MapKeys(m)
			*out = append(*out, ks...)
			_ = sort.Strings
		}, nil)
	})
	// 7. unbuffered hand-off and WaitGroup
	reg("waitgroup", "clean:1", 2, "main waits for two workers through a WaitGroup: always sees both effects", func() vsched.Instance {
		var x int32
		return selfInstance(func(out *[]string) {
			x = 0
			var wg vsched.WaitGroup
			wg.Add(2)
			for t := 0; t < 2; t++ {
				vsched.Go("w", func() { vsched.AddInt32(&x, 1); wg.Done() })
			}
			wg.Wait()
			*out = append(*out, fmt.Sprint(vsched.LoadInt32(&x)))
		}, func(out []string) []vsched.Violation {
			if out[0] != "2" {
				return []vsched.Violation{V("selftest/waitgroup", "%v", out)}
			}
			return nil
		})
	})
}
