package scen

import (
	"fmt"
	"sort"
	"strings"
	"time"

	"github.com/anthdm/hollywood/ringbuffer"
	"github.com/anthdm/hollywood/zzverif/vsched"
)

// ---- C14 sequential: explicit-state BFS over operation sequences on the real RingBuffer.

type ringOp int

const (
	opPush ringOp = iota
	opPop
	opPopN1
	opPopN2
	opPopN3
	opPopNBig
	opLen
	nRingOps
)

var ringOpNames = []string{"Push", "Pop", "PopN(1)", "PopN(2)", "PopN(3)", "PopN(1<<20)", "Len"}

type ringModel struct {
	q    []int
	next int
}

// applyRingOp applies op to both the real buffer and the model and compares what they return.
func applyRingOp(rb *ringbuffer.RingBuffer[int], m *ringModel, op ringOp) string {
	popn := func(n int64) string {
		got, ok := rb.PopN(n)
		if len(m.q) == 0 {
			if ok || len(got) != 0 {
				return fmt.Sprintf("PopN(%d) on empty queue returned (%v,%v), want (nil,false)", n, got, ok)
			}
			return ""
		}
		k := int(n)
		if int64(len(m.q)) < n {
			k = len(m.q)
		}
		want := m.q[:k]
		m.q = m.q[k:]
		if !ok || fmt.Sprint(got) != fmt.Sprint(want) {
			return fmt.Sprintf("PopN(%d) returned (%v,%v), want (%v,true)", n, got, ok, want)
		}
		return ""
	}
	switch op {
	case opPush:
		m.next++
		rb.Push(m.next)
		m.q = append(m.q, m.next)
	case opPop:
		got, ok := rb.Pop()
		if len(m.q) == 0 {
			if ok {
				return fmt.Sprintf("Pop on empty queue returned (%v,true)", got)
			}
			return ""
		}
		want := m.q[0]
		m.q = m.q[1:]
		if !ok || got != want {
			return fmt.Sprintf("Pop returned (%v,%v), want (%v,true)", got, ok, want)
		}
	case opPopN1:
		return popn(1)
	case opPopN2:
		return popn(2)
	case opPopN3:
		return popn(3)
	case opPopNBig:
		return popn(1 << 20)
	case opLen:
		if got := rb.Len(); got != int64(len(m.q)) {
			return fmt.Sprintf("Len returned %d, want %d", got, len(m.q))
		}
	}
	if got := rb.Len(); got != int64(len(m.q)) || got < 0 {
		return fmt.Sprintf("after %s Len is %d, want %d", ringOpNames[op], got, len(m.q))
	}
	return ""
}

// ringKey is the canonical state: the internal geometry plus the order-normalised contents of
// the whole items array (every live value replaced by its rank among the values present, dead
// slots must be zero) plus the model queue under the same renaming. The buffer is
// value-oblivious, so states that differ only by an order-preserving renaming of the values
// have the same futures; nothing else is merged (in particular a buffer that was grown while
// wrapped is only merged with one grown while unwrapped if the copied layout is identical).
func ringKey(rb *ringbuffer.RingBuffer[int], size int64, m *ringModel) string {
	mod, head, tail, ln, items := ringbuffer.VerifGeometry(rb)
	vals := []int{}
	for _, v := range items {
		if v != 0 {
			vals = append(vals, v)
		}
	}
	for _, v := range m.q {
		vals = append(vals, v)
	}
	sort.Ints(vals)
	rank := map[int]int{}
	for _, v := range vals {
		if _, ok := rank[v]; !ok {
			rank[v] = len(rank) + 1
		}
	}
	var sb strings.Builder
	fmt.Fprintf(&sb, "%d/%d/%d/%d/%d|", size, mod, head, tail, ln)
	for _, v := range items {
		fmt.Fprintf(&sb, "%d,", rank[v])
	}
	sb.WriteByte('|')
	for _, v := range m.q {
		fmt.Fprintf(&sb, "%d,", rank[v])
	}
	return sb.String()
}

func ringGeom(rb *ringbuffer.RingBuffer[int]) [4]int64 {
	mod, head, tail, ln, _ := ringbuffer.VerifGeometry(rb)
	return [4]int64{mod, head, tail, ln}
}

func ringSeqRun(tier string, budget int) *DirectReport {
	rep := &DirectReport{Outcomes: map[string]int64{}, Witnesses: map[string]*vsched.Witness{}, Exhaustive: true}
	depth := 20
	if tier == "thorough" {
		depth = 34
	}
	deadline := time.Now().Add(time.Duration(budget) * time.Second)
	maxDepth := 0
	for size := int64(1); size <= 4; size++ {
		seen := map[string]bool{}
		type node struct{ path []ringOp }
		frontier := []node{{}}
		{
			rb := ringbuffer.New[int](size)
			seen[ringKey(rb, size, &ringModel{})] = true
		}
		for d := 0; d < depth && len(frontier) > 0; d++ {
			var next []node
			for _, nd := range frontier {
				if time.Now().After(deadline) {
					rep.Exhaustive = false
					rep.Note = fmt.Sprintf("time cap hit at depth %d, size %d", d, size)
					goto done
				}
				for op := ringOp(0); op < nRingOps; op++ {
					// fresh real object, shortest path replayed, plus one operation
					rb := ringbuffer.New[int](size)
					m := &ringModel{}
					bad := ""
					for _, o := range nd.path {
						if e := applyRingOp(rb, m, o); e != "" {
							bad = e
						}
					}
					if bad != "" {
						continue // already reported on the shorter path
					}
					e := applyRingOp(rb, m, op)
					rep.Transitions++
					rep.Evaluations++
					if e != "" {
						sig := "seq/" + ringOpNames[op] + "-disagrees-with-fifo-model"
						if rep.Witnesses[sig] == nil {
							rep.Witnesses[sig] = &vsched.Witness{Signature: sig, Detail: fmt.Sprintf("initial size %d, history %v then %s: %s", size, pathStr(nd.path), ringOpNames[op], e)}
						}
						rep.Witnesses[sig].Count++
						continue
					}
					k := ringKey(rb, size, m)
					g := ringGeom(rb)
					rep.Outcomes[fmt.Sprintf("mod=%d wrapped=%v grown=%v", g[0], g[2] < g[1], g[0] != size)]++
					if !seen[k] {
						seen[k] = true
						p := append(append([]ringOp{}, nd.path...), op)
						next = append(next, node{p})
						if len(rep.Samples) < 5 && len(p) > 5 {
							rep.Samples = append(rep.Samples, fmt.Sprintf("size=%d %s -> geometry(mod,head,tail,len)=%v", size, pathStr(p), g))
						}
					}
				}
			}
			frontier = next
			if d+1 > maxDepth {
				maxDepth = d + 1
			}
		}
		rep.States += int64(len(seen))
	}
done:
	rep.Note += fmt.Sprintf(" BFS depth %d over initial sizes 1..4, state key = (initial size, mod, head, tail, len, rank-normalised items array, rank-normalised model queue): growth is exercised at every reachable head/tail position and a grown buffer is merged with another only if its copied layout is identical", maxDepth)
	return rep
}

func pathStr(p []ringOp) string {
	s := ""
	for i, o := range p {
		if i > 0 {
			s += ","
		}
		s += ringOpNames[o]
	}
	return "[" + s + "]"
}

// ---- C14 concurrent: threads x operations, linearizability against the FIFO model.

type ringCall struct {
	thread   int
	op       ringOp
	call     int
	ret      int
	popped   []int
	ok       bool
	lenV     int64
	pushed   int
}

var ringProgs = [][]ringOp{
	{opPush}, {opPop}, {opPopN2}, {opLen},
	{opPush, opPush}, {opPush, opPop}, {opPush, opLen}, {opPop, opPush}, {opPop, opPop}, {opPopN2, opLen}, {opLen, opPush}, {opLen, opPop}, {opPush, opPopN2},
}

// start states: (initial size, prefix ops) chosen to cover empty, full, wrapped, about-to-grow
var ringStarts = []struct {
	size int64
	pre  []ringOp
}{
	{1, nil}, {2, nil}, {2, []ringOp{opPush}}, {1, []ringOp{opPush}}, {2, []ringOp{opPush, opPop, opPush}},
	{3, []ringOp{opPush, opPush, opPop, opPop, opPush, opPush}}, {2, []ringOp{opPush, opPush, opPop}}, {4, []ringOp{opPush, opPush, opPush}},
	// full buffers (a PopN frees slots that the very next Push reuses without growing), unwrapped and wrapped
	{2, []ringOp{opPush, opPush}}, {2, []ringOp{opPush, opPop, opPush, opPush}}, {3, []ringOp{opPush, opPush, opPush}},
}

func ringConcInstance(nthreads int, progs [][]ringOp) vsched.Instance {
	var calls []*ringCall
	var startQ []int
	var desc string
	stamp := 0
	body := func() {
		st := ringStarts[vsched.Choose(len(ringStarts))]
		rb := ringbuffer.New[int](st.size)
		m := &ringModel{}
		for _, o := range st.pre {
			applyRingOp(rb, m, o)
		}
		startQ = append([]int{}, m.q...)
		next := 1000
		sel := make([]int, nthreads)
		prev := 0
		for t := 0; t < nthreads; t++ {
			// symmetry: programs in non-decreasing index order
			sel[t] = prev + vsched.Choose(len(progs)-prev)
			prev = sel[t]
		}
		desc = fmt.Sprintf("start size=%d pre=%s progs=", st.size, pathStr(st.pre))
		for t := 0; t < nthreads; t++ {
			desc += pathStr(progs[sel[t]])
		}
		for t := 0; t < nthreads; t++ {
			t := t
			prog := progs[sel[t]]
			vals := make([]int, len(prog))
			for i := range prog {
				next++
				vals[i] = next
			}
			vsched.Go("ringop", func() {
				for i, op := range prog {
					c := &ringCall{thread: t, op: op}
					vsched.Touch("hist")
					stamp++
					c.call = stamp
					switch op {
					case opPush:
						c.pushed = vals[i]
						rb.Push(vals[i])
					case opPop:
						v, ok := rb.Pop()
						c.ok = ok
						if ok {
							c.popped = []int{v}
						}
					case opPopN2:
						c.popped, c.ok = rb.PopN(2)
					case opLen:
						c.lenV = rb.Len()
					}
					vsched.Touch("hist")
					stamp++
					c.ret = stamp
					calls = append(calls, c)
				}
			})
		}
	}
	check := func(r *vsched.Result) []vsched.Violation {
		vs := stdEnd(r)
		if len(vs) > 0 {
			return vs
		}
		if !linearizable(calls, startQ) {
			return []vsched.Violation{V("conc/history-not-linearizable", "%s history=%s", desc, histStr(calls))}
		}
		return nil
	}
	outcome := func() string { return desc + " " + histStr(calls) }
	return vsched.Instance{Body: body, Check: check, Outcome: outcome}
}

func histStr(calls []*ringCall) string {
	s := ""
	for _, c := range calls {
		s += fmt.Sprintf("t%d:%s", c.thread, ringOpNames[c.op])
		switch c.op {
		case opPush:
			s += fmt.Sprintf("(%d)", c.pushed)
		case opLen:
			s += fmt.Sprintf("=%d", c.lenV)
		default:
			s += fmt.Sprintf("=%v,%v", c.popped, c.ok)
		}
		s += fmt.Sprintf("@%d-%d ", c.call, c.ret)
	}
	return s
}

// linearizable: brute force over all orders consistent with real time.
func linearizable(calls []*ringCall, start []int) bool {
	n := len(calls)
	used := make([]bool, n)
	var rec func(q []int, done int) bool
	rec = func(q []int, done int) bool {
		if done == n {
			return true
		}
		for i, c := range calls {
			if used[i] {
				continue
			}
			// c may be next only if no unused call returned before c was called
			okNext := true
			for j, d := range calls {
				if j != i && !used[j] && d.ret < c.call {
					okNext = false
					break
				}
			}
			if !okNext {
				continue
			}
			nq, ok := stepModel(q, c)
			if !ok {
				continue
			}
			used[i] = true
			if rec(nq, done+1) {
				used[i] = false
				return true
			}
			used[i] = false
		}
		return false
	}
	return rec(start, 0)
}

func stepModel(q []int, c *ringCall) ([]int, bool) {
	switch c.op {
	case opPush:
		return append(append([]int{}, q...), c.pushed), true
	case opPop:
		if len(q) == 0 {
			return q, !c.ok && len(c.popped) == 0
		}
		return q[1:], c.ok && len(c.popped) == 1 && c.popped[0] == q[0]
	case opPopN2:
		if len(q) == 0 {
			return q, !c.ok && len(c.popped) == 0
		}
		k := 2
		if len(q) < 2 {
			k = len(q)
		}
		return q[k:], c.ok && fmt.Sprint(c.popped) == fmt.Sprint(q[:k])
	case opLen:
		return q, c.lenV == int64(len(q))
	}
	return q, false
}

func init() {
	Register(&Job{Name: "C14/seq/bfs", Prop: "C14", Kind: "direct", Budget: 40, BudgetT: 300, Run: ringSeqRun,
		Desc: "explicit-state BFS over {Push,Pop,PopN(1),PopN(2),PopN(3),PopN(1<<20),Len} on the real RingBuffer[int], initial size 1..4, every return value compared with a slice model"})
	Register(&Job{Name: "C14/conc/2threads", Prop: "C14", Bound: 99, BoundT: 99, Budget: 50, BudgetT: 600,
		Desc: "2 threads, each one of 13 programs of 1-2 operations (all unordered pairs), from 8 start states (empty/full/wrapped/about to grow): every interleaving, history checked for linearizability against the FIFO model",
		Make: func() vsched.Instance { return ringConcInstance(2, ringProgs) }})
	Register(&Job{Name: "C14/conc/3threads", Prop: "C14", Bound: 99, BoundT: 99, Budget: 50, BudgetT: 900,
		Desc: "3 threads, each one single operation from {Push,Pop,PopN(2),Len} (all multisets), from 8 start states: every interleaving, linearizability against the FIFO model",
		Make: func() vsched.Instance { return ringConcInstance(3, ringProgs[:4]) }})
	Register(&Job{Name: "C14/conc/3threads-2ops", Prop: "C14", Tier: "thorough", Bound: 2, BoundT: 3, Budget: 50, BudgetT: 900,
		Desc: "3 threads, each one of 13 programs of 1-2 operations, from 8 start states, deviation-bounded",
		Make: func() vsched.Instance { return ringConcInstance(3, ringProgs) }})
}
