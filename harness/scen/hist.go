package scen

import (
	"context"
	"errors"
	"fmt"
	"strings"
	"time"

	"github.com/anthdm/hollywood/actor"
	"github.com/anthdm/hollywood/zzverif/vsched"
)

// A history is a string over
//   m  ordinary message            x  message whose first delivery panics
//   X  message that always panics  P  Poison (graceful)      S  Stop
//   i  message whose first delivery panics with an *actor.InternalError (restarted like any panic; the
//      repository exempts it from the restart budget, which the properties neither demand nor forbid:
//      the oracle accepts both readings, see histOracle)
// delivered to one actor "A" either from A's own Started handler (everything sits in the
// ring before Inbox.Start: one batch) or from a driver thread racing with the worker.
type histParams struct {
	Hist        string
	MaxRestarts int
	Delay       bool // RestartDelay 10ms (virtual) instead of 0
	Mode        int  // 0 from Started handler of incarnation 1 (one batch); 1 driver thread started from the Initialized handler (registered, not yet started)
	NMW         int  // middleware chain length
	Size        int  // inbox size
	Late        bool // a second driver sends a late message after quiescence (probe)
	WaitCtx     bool // drivers wait on every stop context
	Bystander   bool
	Watch       bool   // a watcher thread per stop request observes the target the moment the context is done
	SlowStop    bool   // the receiver yields inside its Stopped handler (a handler that takes a moment)
	StopInStop  int    // 1/2: while the receiver is inside its final Stopped handler another thread issues a Poison/Stop for it (blocking hand-off)
	Child       bool   // incarnation 1 spawns a child in its Started handler
	Senders     bool   // every second user message (odd index) is sent with a sender PID of its own, the others without: each delivery shows exactly its own sender
	EmptyMW     bool   // a trailing WithMiddleware() with no middlewares follows the real one
	SplitMW     bool   // the chain is given as two WithMiddleware options ([mw1] and [mw2..n]) instead of one
	OtherMW     bool   // right after the spawn a second actor is spawned with a chain of its own (same length, other middlewares)
	ChildEvery  bool   // with Child: EVERY incarnation spawns the (fixed-id) child in Started - after a restart that is a duplicate, the child of the first incarnation lives on
	StopPanics  bool   // the receiver panics (once) while handling Stopped
	StopPanicsAlways bool // with StopPanics: in every Stopped handler, not only the first
	iCounts     bool   // reading of the reference: an InternalError panic consumes restart budget like any other
	LC          string // lifecycle handlers that panic once: comma separated "<incarnation><I|S>", e.g. "2S" = Started of incarnation 2
}

func (hp histParams) lcFails(inc int, which byte) bool {
	for _, f := range strings.Split(hp.LC, ",") {
		if len(f) == 2 && int(f[0]-'0') == inc && f[1] == which {
			return true
		}
	}
	return false
}

func (hp histParams) String() string {
	d := 0
	if hp.Delay {
		d = 1
	}
	lc := ""
	if hp.LC != "" {
		lc = "lc" + hp.LC
	}
	if hp.StopPanicsAlways {
		lc += "always"
	}
	if hp.StopPanics {
		lc += "stoppanics"
	}
	if hp.Child {
		lc += "child"
	}
	if hp.ChildEvery {
		lc += "every"
	}
	if hp.SplitMW {
		lc += "splitmw"
	}
	if hp.Senders {
		lc += "senders"
	}
	if hp.EmptyMW {
		lc += "emptymw"
	}
	if hp.OtherMW {
		lc += "othermw"
	}
	if hp.Watch {
		lc += "watch"
	}
	if hp.SlowStop {
		lc += "slowstop"
	}
	if hp.StopInStop != 0 {
		lc += fmt.Sprintf("stopinstop%d", hp.StopInStop)
	}
	return fmt.Sprintf("%s_r%dd%dmode%dmw%d%s", hp.Hist, hp.MaxRestarts, d, hp.Mode, hp.NMW, lc)
}

type histRun struct {
	hp       histParams
	k        *Kit
	pid      *actor.PID
	paniced  map[int]bool
	ctxs     []context.Context
	ctxKind  []byte
	ctxDone  []bool // done when the call returned
	regAtEnd bool
	probeDL  bool
	mwLog    []string
	byPID    *actor.PID
	spawnRet bool
	startedAtSpawnRet bool
	issued   bool
	lcDone   map[string]bool
	stopPaniced bool
	mode2From int
	stopInStopDone bool
	ctxObs   []string // what was wrong at the moment a stop context was observed done
}

// watch starts a thread that waits for the stop context and records, the moment it finds it
// done, whether the target has handled its final Stopped and is unregistered by then.
func (h *histRun) watch(e *actor.Engine, ctx context.Context, kind byte, n int) {
	vsched.Go("ctx-watcher", func() {
		vsched.Recv(ctx.Done())
		reg := e.Registry.GetPID("a", "1") != nil
		stopped := false
		for _, ev := range h.k.Recv("A") {
			if ev.Msg == "Stopped" && ev.Inc == h.k.Incs("A") {
				stopped = true
			}
		}
		vsched.Touch("ctxobs")
		if reg {
			h.ctxObs = append(h.ctxObs, fmt.Sprintf("context of %c request #%d done while the target is still registered", kind, n))
		}
		if !stopped {
			h.ctxObs = append(h.ctxObs, fmt.Sprintf("context of %c request #%d done before the target handled its final Stopped", kind, n))
		}
	})
}

func (h *histRun) issue(i int, e *actor.Engine) {
	switch h.hp.Hist[i] {
	case 'm', 'x', 'X', 'i':
		if h.hp.Senders && i%2 == 1 {
			e.SendWithSender(h.pid, i, actor.NewPID("local", fmt.Sprintf("snd/%d", i)))
		} else {
			e.Send(h.pid, i)
		}
	case 'P':
		ctx := e.Poison(h.pid)
		h.ctxs = append(h.ctxs, ctx)
		h.ctxKind = append(h.ctxKind, 'P')
		h.ctxDone = append(h.ctxDone, ctx.Err() != nil)
		if h.hp.Watch {
			h.watch(e, ctx, 'P', len(h.ctxs))
		}
	case 'S':
		ctx := e.Stop(h.pid)
		h.ctxs = append(h.ctxs, ctx)
		h.ctxKind = append(h.ctxKind, 'S')
		h.ctxDone = append(h.ctxDone, ctx.Err() != nil)
		if h.hp.Watch {
			h.watch(e, ctx, 'S', len(h.ctxs))
		}
	}
}

func (h *histRun) behave(k *Kit, c *actor.Context, inc int) {
	switch m := c.Message().(type) {
	case actor.Initialized:
		if h.hp.lcFails(inc, 'I') && !h.lcDone[fmt.Sprint(inc, "I")] {
			h.lcDone[fmt.Sprint(inc, "I")] = true
			panic(fmt.Sprintf("Initialized of incarnation %d", inc))
		}
		if h.hp.Mode == 1 && !h.issued {
			h.issued = true
			// the process is registered by now: a driver thread races with Started, with the
			// start of the inbox and with the worker
			e := c.Engine()
			vsched.Go("driver", func() {
				for i := range h.hp.Hist {
					h.issue(i, e)
				}
			})
		}
	case actor.Started:
		if h.hp.lcFails(inc, 'S') && !h.lcDone[fmt.Sprint(inc, "S")] {
			h.lcDone[fmt.Sprint(inc, "S")] = true
			panic(fmt.Sprintf("Started of incarnation %d", inc))
		}
		if h.hp.Child && (inc == 1 || h.hp.ChildEvery) {
			c.SpawnChild(k.Producer("K", nil), "kid", actor.WithID("1"))
		}
		if h.hp.Mode == 0 && !h.issued {
			h.issued = true
			for i := range h.hp.Hist {
				h.issue(i, c.Engine())
			}
		}
		if h.hp.Mode == 2 && !h.issued {
			// mode 2: everything up to and including the first failing message is sent from Started; the rest
			// is sent by the failing Receive itself, right before it panics: it sits in the ring BEHIND the
			// batch that is being processed (and not in the restart buffer)
			h.issued = true
			h.mode2From = len(h.hp.Hist)
			for i := range h.hp.Hist {
				h.issue(i, c.Engine())
				if strings.ContainsRune("xXi", rune(h.hp.Hist[i])) {
					h.mode2From = i + 1
					break
				}
			}
		}
	case actor.Stopped:
		if h.hp.SlowStop {
			vsched.Yield()
		}
		if h.hp.StopInStop != 0 && !h.stopInStopDone {
			// a second party asks for the stop while this handler is running: its context must not be
			// done before this handler has returned and the actor is unregistered
			h.stopInStopDone = true
			back := make(chan struct{})
			e := c.Engine()
			vsched.Go("second-stopper", func() {
				var ctx context.Context
				kind := byte('P')
				if h.hp.StopInStop == 1 {
					ctx = e.Poison(h.pid)
				} else {
					ctx, kind = e.Stop(h.pid), 'S'
				}
				h.ctxs = append(h.ctxs, ctx)
				h.ctxKind = append(h.ctxKind, kind)
				h.ctxDone = append(h.ctxDone, ctx.Err() != nil)
				if ctx.Err() != nil {
					vsched.Touch("ctxobs")
					h.ctxObs = append(h.ctxObs, fmt.Sprintf("context of the %c request issued while the target was inside its Stopped handler was done when the call returned: before the target handled Stopped, while it is still registered", kind))
				}
				vsched.Send(back, struct{}{})
			})
			vsched.Recv(back)
		}
		if h.hp.StopPanics && (!h.stopPaniced || h.hp.StopPanicsAlways) {
			h.stopPaniced = true
			panic("in the Stopped handler")
		}
	case int:
		if h.hp.Mode == 2 && m >= 0 && m+1 == h.mode2From && h.mode2From < len(h.hp.Hist) {
			from := h.mode2From
			h.mode2From = len(h.hp.Hist)
			for i := from; i < len(h.hp.Hist); i++ {
				h.issue(i, c.Engine())
			}
		}
		if m >= 0 && m < len(h.hp.Hist) {
			switch h.hp.Hist[m] {
			case 'x':
				if !h.paniced[m] {
					h.paniced[m] = true
					panic(fmt.Sprintf("x%d", m))
				}
			case 'X':
				panic(fmt.Sprintf("X%d", m))
			case 'i':
				if !h.paniced[m] {
					h.paniced[m] = true
					panic(&actor.InternalError{From: fmt.Sprintf("i%d", m), Err: errors.New("internal")})
				}
			}
		}
	}
}

func (h *histRun) middleware(i int) actor.MiddlewareFunc {
	return func(next actor.ReceiveFunc) actor.ReceiveFunc {
		return func(c *actor.Context) {
			h.k.add(Ev{Kind: "mw+", Actor: "A", Inc: i, Msg: Render(c.Message()), Sender: pidStr(c.Sender())})
			defer func() {
				if r := recover(); r != nil {
					h.k.add(Ev{Kind: "mw-", Actor: "A", Inc: i, Msg: "panic"})
					panic(r)
				}
				h.k.add(Ev{Kind: "mw-", Actor: "A", Inc: i, Msg: Render(c.Message())})
			}()
			next(c)
		}
	}
}

// histInstance explores every variant (a data choice at the start of the execution) under
// every schedule within the bound.
func histInstance(variants []histParams, oracle func(h *histRun, r *vsched.Result) []vsched.Violation) vsched.Instance {
	h := &histRun{paniced: map[int]bool{}, lcDone: map[string]bool{}}
	body := func() {
		h.hp = variants[chooseVariant(len(variants))]
		hp := h.hp
		k := NewKit()
		h.k = k
		if hp.Bystander {
			h.byPID = k.E.Spawn(k.Producer("B", nil), "b", actor.WithID("1"))
		}
		vsched.EndSetup()
		opts := []actor.OptFunc{actor.WithID("1"), actor.WithMaxRestarts(hp.MaxRestarts)}
		if hp.Delay {
			opts = append(opts, actor.WithRestartDelay(10*time.Millisecond))
		} else {
			opts = append(opts, actor.WithRestartDelay(0))
		}
		if hp.Size > 0 {
			opts = append(opts, actor.WithInboxSize(hp.Size))
		}
		var mws []actor.MiddlewareFunc
		for i := 0; i < hp.NMW; i++ {
			mws = append(mws, h.middleware(i+1))
		}
		if len(mws) > 1 && hp.SplitMW {
			opts = append(opts, actor.WithMiddleware(mws[0]), actor.WithMiddleware(mws[1:]...))
		} else if len(mws) > 0 {
			opts = append(opts, actor.WithMiddleware(mws...))
		}
		if hp.EmptyMW {
			opts = append(opts, actor.WithMiddleware())
		}
		h.pid = actor.NewPID("local", "a/1")
		k.E.Spawn(k.Producer("A", h.behave), "a", opts...)
		h.spawnRet = true
		if hp.OtherMW {
			var other []actor.MiddlewareFunc
			for i := 0; i < hp.NMW; i++ {
				i := i
				other = append(other, func(next actor.ReceiveFunc) actor.ReceiveFunc {
					return func(c *actor.Context) {
						k.add(Ev{Kind: "mw+", Actor: "O", Inc: i + 1, Msg: Render(c.Message())})
						next(c)
					}
				})
			}
			k.E.Spawn(k.Producer("O", nil), "o", actor.WithID("1"), actor.WithMiddleware(other...))
		}
		for _, e := range k.Recv("A") {
			if e.Msg == "Started" {
				h.startedAtSpawnRet = true
			}
		}
		if hp.Bystander {
			k.E.Send(h.byPID, 900)
		}
		if hp.WaitCtx {
			vsched.Quiesce()
			for _, ctx := range h.ctxs {
				vsched.Recv(ctx.Done())
			}
		}
		vsched.Quiesce()
		h.regAtEnd = k.E.Registry.GetPID("a", "1") != nil
		if hp.Late {
			k.E.Send(h.pid, 999)
			vsched.Quiesce()
		}
	}
	check := func(r *vsched.Result) []vsched.Violation { return oracle(h, r) }
	outcome := func() string {
		if h.k == nil {
			return "no-kit"
		}
		return h.hp.String() + ": " + h.k.LogString()
	}
	return vsched.Instance{Body: body, Check: check, Outcome: outcome}
}

// ---- reference semantics of a history

type histRef struct {
	mustDeliver map[int]bool // message index must be delivered exactly once
	mayDeliver  map[int]bool
	internal    int  // number of InternalError crashes (each restarts the actor; counted in crashes only under the iCounts reading)
	crashes     int  // number of crash deliveries that lead to a restart and count against the budget
	terminal    byte // 0 none, 'P', 'S', 'E' (budget exhausted)
	termIdx     int
	exhausted   bool
	incOf       map[int]int // incarnation that must receive message i
	neverStarted bool       // the budget ran out in lifecycle handlers before any incarnation handled Started successfully
}

func refHistory(hist string, maxRestarts int) histRef { return refHistoryLC(histParams{Hist: hist, MaxRestarts: maxRestarts}) }

// refHistoryLC is the reference semantics of a history including lifecycle handlers that panic:
// every panic (user message or lifecycle handler) costs one restart and produces the next
// incarnation, or terminates the actor when the budget is used up.
func refHistoryLC(hp histParams) histRef {
	hist, maxRestarts := hp.Hist, hp.MaxRestarts
	ref := histRef{mustDeliver: map[int]bool{}, mayDeliver: map[int]bool{}, termIdx: -1, incOf: map[int]int{}}
	restarts := 0
	inc := 1
	// lifecycle failures of the incarnation that is starting
	startInc := func(at int) {
		for ref.terminal == 0 {
			n := 0
			if hp.lcFails(inc, 'I') {
				n++
			} else if hp.lcFails(inc, 'S') {
				n++
			}
			if n == 0 {
				return
			}
			if restarts == maxRestarts {
				ref.terminal, ref.termIdx, ref.exhausted = 'E', at, true
				return
			}
			restarts++
			inc++
		}
	}
	startInc(0)
	ref.neverStarted = ref.terminal != 0
	for i := 0; i < len(hist); i++ {
		c := hist[i]
		if ref.terminal != 0 {
			if c == 'm' || c == 'x' || c == 'X' || c == 'i' {
				if ref.terminal == 'P' {
					ref.mayDeliver[i] = true
				}
			}
			continue
		}
		switch c {
		case 'm':
			ref.mustDeliver[i] = true
			ref.incOf[i] = inc
		case 'x', 'X':
			ref.mustDeliver[i] = true
			ref.incOf[i] = inc
			if restarts == maxRestarts {
				ref.terminal, ref.termIdx, ref.exhausted = 'E', i, true
			} else {
				restarts++
				inc++
				startInc(i)
			}
		case 'i':
			ref.mustDeliver[i] = true
			ref.incOf[i] = inc
			ref.internal++
			if !hp.iCounts {
				inc++
				startInc(i)
			} else if restarts == maxRestarts {
				ref.terminal, ref.termIdx, ref.exhausted = 'E', i, true
			} else {
				restarts++
				inc++
				startInc(i)
			}
		case 'P', 'S':
			ref.terminal, ref.termIdx = c, i
		}
	}
	ref.crashes = restarts
	return ref
}

// ---- oracles

// lifecycleShape checks the per-incarnation protocol (C04 core), returns violations.
func lifecycleShape(k *Kit, name string, endedLast bool) []vsched.Violation {
	var vs []vsched.Violation
	byInc := map[int][]string{}
	maxInc := 0
	for _, e := range k.Recv(name) {
		byInc[e.Inc] = append(byInc[e.Inc], e.Msg)
		if e.Inc > maxInc {
			maxInc = e.Inc
		}
	}
	if maxInc != k.Incs(name) {
		vs = append(vs, V("lifecycle/incarnation-without-deliveries", "%d producer calls but deliveries to %d incarnations; log: %s", k.Incs(name), maxInc, k.LogString()))
	}
	for inc := 1; inc <= maxInc; inc++ {
		tr := byInc[inc]
		ended := inc < maxInc || endedLast
		if len(tr) < 1 || tr[0] != "Initialized" {
			vs = append(vs, V("lifecycle/first-not-initialized", "incarnation %d trace %v", inc, tr))
			continue
		}
		nStopped := 0
		for i, m := range tr {
			if m == "Stopped" {
				nStopped++
				if i != len(tr)-1 {
					vs = append(vs, V("lifecycle/delivery-after-stopped", "incarnation %d trace %v", inc, tr))
					break
				}
			}
			if i >= 1 && m == "Initialized" {
				vs = append(vs, V("lifecycle/initialized-twice", "incarnation %d trace %v", inc, tr))
			}
			if i >= 2 && m == "Started" {
				vs = append(vs, V("lifecycle/started-twice", "incarnation %d trace %v", inc, tr))
			}
			if i == 1 && m != "Started" && m != "Stopped" {
				vs = append(vs, V("lifecycle/message-before-started", "incarnation %d trace %v", inc, tr))
			}
		}
		if nStopped > 1 {
			vs = append(vs, V("lifecycle/stopped-twice", "incarnation %d trace %v", inc, tr))
		}
		if ended && nStopped == 0 {
			vs = append(vs, V("lifecycle/ended-without-stopped", "incarnation %d trace %v", inc, tr))
		}
		if !ended && nStopped > 0 {
			vs = append(vs, V("lifecycle/stopped-but-still-registered", "incarnation %d trace %v", inc, tr))
		}
	}
	return vs
}

func userMsgs(evs []Ev) []Ev {
	var out []Ev
	for _, e := range evs {
		if strings.HasPrefix(e.Msg, "m") && e.Kind == "recv" {
			out = append(out, e)
		}
	}
	return out
}

// histOracle is the common oracle of the history scenarios; props selects the clauses.
func histOracle(h *histRun, r *vsched.Result) []vsched.Violation {
	if !strings.ContainsRune(h.hp.Hist, 'i') {
		return histOracleReading(h, r, false)
	}
	// InternalError panics: the code restarts without touching the budget (and without an
	// ActorRestartedEvent); the properties say neither that nor the opposite. The execution must
	// satisfy one of the two readings as a whole.
	a := histOracleReading(h, r, false)
	if len(a) == 0 {
		return nil
	}
	if b := histOracleReading(h, r, true); len(b) == 0 {
		return nil
	}
	return a
}

func histOracleReading(h *histRun, r *vsched.Result, iCounts bool) []vsched.Violation {
	vs := stdEnd(r)
	if len(vs) > 0 {
		return vs
	}
	k := h.k
	hp := h.hp
	hp.iCounts = iCounts
	ref := refHistoryLC(hp)
	vs = append(vs, k.serial()...)
	ended := ref.terminal != 0
	if ended == h.regAtEnd {
		if ended {
			vs = append(vs, V("registry/still-registered-after-termination", "history %s: actor still registered at quiescence; log: %s", hp.Hist, k.LogString()))
		} else {
			vs = append(vs, V("registry/unregistered-without-termination", "history %s: actor not registered at quiescence; log: %s", hp.Hist, k.LogString()))
		}
	}
	vs = append(vs, lifecycleShape(k, "A", ended)...)
	if !h.startedAtSpawnRet && !ref.neverStarted {
		vs = append(vs, V("lifecycle/spawn-returned-before-started", "Spawn returned but Started had not been handled"))
	}
	// deliveries of user messages
	count := map[int]int{}
	var order []int
	incOf := map[int]int{}
	for _, e := range userMsgs(k.Recv("A")) {
		id := e.Raw.(int)
		count[id]++
		order = append(order, id)
		incOf[id] = e.Inc
	}
	for i := 1; i < len(order); i++ {
		if order[i] < order[i-1] {
			vs = append(vs, V("order/history-reordered", "history %s delivered in order %v; log: %s", hp.Hist, order, k.LogString()))
			break
		}
	}
	for id, n := range count {
		switch {
		case id == 999:
			if ended {
				vs = append(vs, V("lifecycle/delivery-after-termination", "probe message delivered to a terminated actor; log: %s", k.LogString()))
			}
		case n > 1:
			sig := "redelivery/message-delivered-twice"
			if hp.Hist[id] == 'x' || hp.Hist[id] == 'X' || hp.Hist[id] == 'i' {
				sig = "redelivery/failing-message-redelivered"
			}
			vs = append(vs, V(sig, "history %s: message %d delivered %d times; log: %s", hp.Hist, id, n, k.LogString()))
		case !ref.mustDeliver[id] && !ref.mayDeliver[id]:
			vs = append(vs, V("lifecycle/delivery-after-termination", "history %s: message %d delivered although sent after the terminating request; log: %s", hp.Hist, id, k.LogString()))
		}
	}
	for id := range ref.mustDeliver {
		if count[id] == 0 {
			vs = append(vs, V("loss/message-not-delivered", "history %s: message %d never delivered; log: %s", hp.Hist, id, k.LogString()))
		}
	}
	// restarts
	wantInc := 1 + ref.crashes
	if !iCounts {
		wantInc += ref.internal
	}
	if crashBehindPoison(hp.Hist) {
		// a panic while draining behind a graceful pill: the property demands containment and that
		// the stop completes, not whether the actor is restarted once more before it stops
		return append(vs, histTail(h, ref, ended, count)...)
	}
	if k.Incs("A") != wantInc {
		vs = append(vs, V("restart/wrong-number-of-incarnations", "history %s maxRestarts %d: %d incarnations, want %d; log: %s", hp.Hist, hp.MaxRestarts, k.Incs("A"), wantInc, k.LogString()))
	}
	rest := k.EventsMatching("ActorRestarted(")
	evLo, evHi := ref.crashes, ref.crashes // an ActorRestartedEvent for an InternalError restart is neither demanded nor forbidden
	if iCounts {
		evLo -= ref.internal
	} else {
		evHi += ref.internal
	}
	if len(rest) < evLo || len(rest) > evHi {
		vs = append(vs, V("restart/wrong-number-of-restarted-events", "history %s: events %v, want %d", hp.Hist, rest, ref.crashes))
	}
	for i, s := range rest {
		if ref.internal > 0 {
			break
		}
		if want := fmt.Sprintf("ActorRestarted(local/a/1,%d)", i+1); s != want {
			vs = append(vs, V("restart/wrong-restart-count-in-event", "event %d is %s, want %s", i, s, want))
		}
	}
	mx := k.EventsMatching("ActorMaxRestartsExceeded(")
	wantMx := 0
	if ref.exhausted {
		wantMx = 1
	}
	if len(mx) != wantMx {
		vs = append(vs, V("restart/wrong-number-of-max-restarts-events", "history %s maxRestarts %d: %v, want %d", hp.Hist, hp.MaxRestarts, mx, wantMx))
	}
	// every crash is delivered to an incarnation that then ends; messages behind it go to the next one
	// (covered by shape + order + exactly-once); the failing message's incarnation is the crashing one:
	for i := 0; i < len(hp.Hist); i++ {
		if ref.mustDeliver[i] && count[i] == 1 && incOf[i] != ref.incOf[i] {
			sig := "restart/message-delivered-to-wrong-incarnation"
			if hp.Hist[i] == 'x' || hp.Hist[i] == 'X' {
				sig = "restart/failing-message-in-wrong-incarnation"
			}
			vs = append(vs, V(sig, "history %s: message %d delivered to incarnation %d, want %d; log: %s", hp, i, incOf[i], ref.incOf[i], k.LogString()))
		}
	}
	return append(vs, histTail(h, ref, ended, count)...)
}

// stopBehindExhaustion: a stop request is queued behind the panic that exceeds max restarts.
func stopBehindExhaustion(hist string, maxRestarts int) bool {
	ref := refHistory(hist, maxRestarts)
	return ref.exhausted && strings.IndexAny(hist[ref.termIdx:], "PS") >= 0
}

// crashBehindPoison: a message that panics is queued behind a graceful pill.
func crashBehindPoison(hist string) bool {
	p := strings.IndexByte(hist, 'P')
	return p >= 0 && strings.IndexAny(hist[p:], "xXi") >= 0
}

// histTail: stop contexts, late probe, bystander, middleware clauses of the history oracle.
func histTail(h *histRun, ref histRef, ended bool, count map[int]int) []vsched.Violation {
	var vs []vsched.Violation
	k, hp := h.k, h.hp
	// what the watchers saw the moment a context was done
	for _, o := range h.ctxObs {
		sig := "stop/ctx-done-before-stopped-handled"
		if strings.Contains(o, "still registered") {
			sig = "stop/ctx-done-while-still-registered"
		}
		vs = append(vs, V(sig, "history %s: %s; log: %s", hp, o, k.LogString()))
	}
	// stop contexts
	for i, ctx := range h.ctxs {
		if ctx.Err() == nil {
			vs = append(vs, V(fmt.Sprintf("stop/ctx-never-done/request-%d-of-%d", i+1, len(h.ctxs)), "history %s: context of %c request #%d never done; log: %s", hp.Hist, h.ctxKind[i], i+1, k.LogString()))
		}
	}
	if hp.Late && ended {
		dl := k.EventsMatching("DeadLetter(local/a/1,m999")
		if len(dl) != 1 && count[999] == 0 {
			vs = append(vs, V("deadletter/late-send-not-dead-lettered", "history %s: send after termination produced %d dead letters; events %v", hp.Hist, len(dl), k.Events()))
		}
	}
	if hp.Child {
		kidReg := k.E.Registry.GetPID("a/1/kid", "1") != nil
		kidStopped := 0
		for _, e := range k.Recv("K") {
			if e.Msg == "Stopped" {
				kidStopped++
			}
		}
		switch {
		case ended && (kidReg || kidStopped != 1):
			vs = append(vs, V("children/child-survives-terminated-parent", "history %s: the actor is gone but its child is registered=%v and handled Stopped %d times; log: %s", hp, kidReg, kidStopped, k.LogString()))
		case !ended && (!kidReg || kidStopped != 0):
			vs = append(vs, V("children/child-stopped-although-parent-lives", "history %s: child registered=%v, Stopped %d times; log: %s", hp, kidReg, kidStopped, k.LogString()))
		}
	}
	if hp.Bystander {
		if b := userMsgs(k.Recv("B")); len(b) != 1 {
			vs = append(vs, V("containment/bystander-affected", "bystander received %d messages, want 1", len(b)))
		}
	}
	// each delivery shows its own sender (receiver and every middleware)
	if hp.Senders {
		for _, e := range k.Log {
			if e.Actor != "A" || (e.Kind != "recv" && e.Kind != "mw+") {
				continue
			}
			want := ""
			var id int
			if n, _ := fmt.Sscanf(e.Msg, "m%d", &id); n == 1 && id >= 0 && id < len(hp.Hist) && id%2 == 1 {
				want = fmt.Sprintf("local/snd/%d", id)
			}
			if e.Sender != want {
				vs = append(vs, V("context/wrong-sender-shown-for-delivery", "history %s: delivery of %s shows sender %q, want %q; log: %s", hp, e.Msg, e.Sender, want, k.LogString()))
				break
			}
		}
	}
	// middleware nesting
	if hp.NMW > 0 {
		vs = append(vs, mwOracle(h)...)
	}
	return vs
}

// mwOracle: every delivery the receiver saw is wrapped mw1(mw2(..(receiver))) exactly once.
func mwOracle(h *histRun) []vsched.Violation {
	var vs []vsched.Violation
	n := h.hp.NMW
	depth := 0
	var cur string
	wrapped := false
	for _, e := range h.k.Log {
		if e.Actor != "A" {
			continue
		}
		switch e.Kind {
		case "mw+":
			if e.Inc != depth+1 {
				vs = append(vs, V("middleware/wrong-nesting-order", "middleware %d entered at depth %d for %s; log: %s", e.Inc, depth, e.Msg, h.k.LogString()))
				return vs
			}
			if depth == 0 {
				cur = e.Msg + "|" + e.Sender
				wrapped = false
			} else if cur != e.Msg+"|"+e.Sender {
				vs = append(vs, V("middleware/context-differs-inside-chain", "middleware %d sees %s, outer saw %s", e.Inc, e.Msg, cur))
			}
			depth++
		case "mw-":
			depth--
			if depth == 0 && !wrapped && e.Msg != "panic" {
				vs = append(vs, V("middleware/chain-without-receiver", "chain ran for %s but the receiver was not invoked inside it", cur))
			}
		case "recv":
			if depth != n {
				sig := "middleware/delivery-bypasses-chain/" + lifecycleOrUser(e.Msg)
				vs = append(vs, V(sig, "receiver got %s at middleware depth %d, want %d; log: %s", e.Msg, depth, n, h.k.LogString()))
				continue
			}
			if wrapped {
				vs = append(vs, V("middleware/receiver-invoked-twice-in-one-chain", "%s", e.Msg))
			}
			wrapped = true
			if cur != e.Msg+"|"+e.Sender {
				vs = append(vs, V("middleware/context-differs-inside-chain", "receiver sees %s|%s, middleware saw %s", e.Msg, e.Sender, cur))
			}
		}
	}
	return vs
}

func lifecycleOrUser(m string) string {
	switch m {
	case "Initialized", "Started", "Stopped":
		return m
	}
	return "user"
}

// allHists returns all strings over alphabet with length in [1,n] that satisfy keep.
func allHists(alphabet string, n int, keep func(string) bool) []string {
	var out []string
	var rec func(cur string)
	rec = func(cur string) {
		if len(cur) > 0 && keep(cur) {
			out = append(out, cur)
		}
		if len(cur) == n {
			return
		}
		for i := 0; i < len(alphabet); i++ {
			rec(cur + string(alphabet[i]))
		}
	}
	rec("")
	return out
}

func countAny(s, chars string) int {
	n := 0
	for i := 0; i < len(s); i++ {
		if strings.IndexByte(chars, s[i]) >= 0 {
			n++
		}
	}
	return n
}

func init() {
	// C05: crash containment and resumption, no pills, within the restart budget.
	crashHists := func(n, maxCrash int) []string {
		return allHists("mxX", n, func(h string) bool { c := countAny(h, "xX"); return c >= 1 && c <= maxCrash })
	}
	mk := func(hists []string, base histParams) []histParams {
		var vs []histParams
		for _, h := range hists {
			p := base
			p.Hist = h
			vs = append(vs, p)
		}
		return vs
	}
	for _, mode := range []int{0, 1} {
		for _, delay := range []bool{false, true} {
			base := histParams{MaxRestarts: 3, Delay: delay, Mode: mode, Bystander: true}
			name := fmt.Sprintf("C05/hist/len3-mode%d-delay%v", mode, delay)
			vq := mk(crashHists(3, 3), base)
			for _, hs := range []string{"mxm", "xmm", "xxm"} { // the same with a middleware chain in front of the receiver
				p := base
				p.Hist, p.NMW = hs, 1
				vq = append(vq, p)
			}
			Register(&Job{Name: name, Prop: "C05", Bound: 1, BoundT: 2, Budget: 40, BudgetT: 600,
				Desc: fmt.Sprintf("all %d histories over {m,x,X} of length<=3 with >=1 crash (MaxRestarts 3, restart delay %v), issued %s; bystander actor + monitor", len(vq), delay, map[int]string{0: "from the actor's own Started handler (one batch)", 1: "by a driver thread racing with spawn and worker"}[mode]),
				Make: func() vsched.Instance { return histInstance(vq, histOracle) }})
			vt := mk(crashHists(4, 3), base)
			Register(&Job{Name: fmt.Sprintf("C05/hist/len4-mode%d-delay%v", mode, delay), Prop: "C05", Tier: "thorough", Bound: 1, BoundT: 2, Budget: 40, BudgetT: 900,
				Desc: fmt.Sprintf("all %d histories over {m,x,X} of length<=4 with 1..3 crashes", len(vt)),
				Make: func() vsched.Instance { return histInstance(vt, histOracle) }})
		}
	}

	// C05: lifecycle handlers that panic (Initialized/Started of incarnation 1, of the incarnation
	// produced by a restart), alone and combined with failing messages and a queued tail.
	for _, mode := range []int{0, 1} {
		var vq, vt []histParams
		for _, lc := range []string{"1I", "1S", "2I", "2S", "1I,2S", "2S,3S", "2I,3I"} {
			for _, h := range []string{"m", "mm", "x", "xm", "xmm", "mxm", "xxm", "xmx"} {
				p := histParams{Hist: h, MaxRestarts: 4, Mode: mode, Bystander: true, LC: lc}
				if len(lc) == 2 && len(h) <= 3 {
					vq = append(vq, p)
				}
				vt = append(vt, p)
				p.Delay = true
				vt = append(vt, p)
			}
		}
		Register(&Job{Name: fmt.Sprintf("C05/hist/lifecycle-handler-panics-mode%d", mode), Prop: "C05", Bound: 1, BoundT: 2, Budget: 40, BudgetT: 600,
			Desc: fmt.Sprintf("%d (history, failing lifecycle handler) pairs: Initialized/Started of incarnation 1 or 2 panics once, histories over {m,x} of length<=3 (MaxRestarts 4): the queued tail survives, is delivered once, in order, to the first incarnation that starts successfully", len(vq)),
			Make: func() vsched.Instance { return histInstance(vq, histOracle) }})
		Register(&Job{Name: fmt.Sprintf("C05/hist/lifecycle-handler-panics-seq-mode%d", mode), Prop: "C05", Tier: "thorough", Bound: 1, BoundT: 2, Budget: 40, BudgetT: 900,
			Desc: fmt.Sprintf("%d pairs incl. two failing lifecycle handlers in a row and restart delay >0", len(vt)),
			Make: func() vsched.Instance { return histInstance(vt, histOracle) }})
	}

	// C03: the inbox of an actor whose FIRST start fails in a lifecycle handler (recovered on the spawning
	// goroutine, before the inbox was ever started) must still be opened by the start that succeeds.
	{
		var v []histParams
		for _, mode := range []int{0, 1} {
			for _, lc := range []string{"1I", "1S", "1S,2S", "1I,2I"} {
				for _, h := range []string{"m", "mm", "xm"} {
					v = append(v, histParams{Hist: h, MaxRestarts: 4, Mode: mode, LC: lc}, histParams{Hist: h, MaxRestarts: 4, Mode: mode, LC: lc, Delay: true})
				}
			}
		}
		Register(&Job{Name: "C03/hist/first-start-fails", Prop: "C03", Bound: 1, BoundT: 2, Budget: 40, BudgetT: 600,
			Desc: fmt.Sprintf("%d variants: Initialized/Started of the first one or two incarnations panic (the first start fails on the spawning goroutine, before the inbox is opened), restart delay 0 and >0, 1-2 messages sent before or after the spawn returns: every message is processed by the incarnation that starts", len(v)),
			Make: func() vsched.Instance { return histInstance(v, histOracle) }})
	}

	// C05/C06: the receiver panics AGAIN while it is told Stopped after a crash (the crash-path Stopped of a
	// restart, or the final Stopped when the budget is used up). That delivery runs inside the recover handler of
	// Invoke/Start: the second panic must be contained too (D26: it killed the program).
	for _, mode := range []int{0, 1} {
		var v5, v6 []histParams
		for _, hs := range []string{"x", "xm", "mxm", "xxm", "mx"} {
			v5 = append(v5, histParams{Hist: hs, MaxRestarts: 3, Mode: mode, Late: true, Bystander: true, StopPanics: true})
		}
		for _, lc := range []string{"1S", "1I"} {
			v5 = append(v5, histParams{Hist: "m", MaxRestarts: 3, Mode: mode, Late: true, Bystander: true, StopPanics: true, LC: lc})
		}
		for _, hc := range []struct {
			r int
			h string
		}{{0, "X"}, {0, "mX"}, {0, "Xm"}, {1, "xX"}, {1, "XmX"}} {
			v6 = append(v6, histParams{Hist: hc.h, MaxRestarts: hc.r, Mode: mode, Late: true, Bystander: true, StopPanics: true})
		}
		// every Stopped handler panics (crash-path and final), the budget runs out while the restart buffer is
		// replayed, and something is still queued behind: terminated is terminated
		for _, hc := range []struct {
			r int
			h string
		}{{1, "XX"}, {1, "XXm"}, {1, "xXm"}, {2, "XXXm"}, {0, "Xmm"}} {
			v6 = append(v6, histParams{Hist: hc.h, MaxRestarts: hc.r, Mode: mode, Late: true, Bystander: true, StopPanics: true, StopPanicsAlways: true})
		}
		Register(&Job{Name: fmt.Sprintf("C05/hist/stopped-handler-panics-after-crash-mode%d", mode), Prop: "C05", Family: "regression:D26 (fixed)", Bound: 1, BoundT: 2, Budget: 40, BudgetT: 600,
			Desc: fmt.Sprintf("%d histories in which the receiver that just crashed (on a message, in Started, in Initialized) panics once more while it is told Stopped: contained, the restart goes ahead, the queued tail is delivered once and in order, the bystander is undisturbed", len(v5)),
			Make: func() vsched.Instance { return histInstance(v5, histOracle) }})
		Register(&Job{Name: fmt.Sprintf("C06/hist/stopped-handler-panics-at-exhaustion-mode%d", mode), Prop: "C06", Family: "regression:D26 (fixed)", Bound: 1, BoundT: 2, Budget: 40, BudgetT: 600, Shards: 5,
			Desc: fmt.Sprintf("%d histories in which the budget-exhausting panic is followed by a panic of the same receiver in its final Stopped handler (or an earlier crash-path Stopped panics): contained, ActorMaxRestartsExceededEvent once, unregistered, later sends dead-letter, the bystander is undisturbed", len(v6)),
			Make: func() vsched.Instance { return histInstance(v6, histOracle) }})
	}

	// C05/C06: panics with *actor.InternalError (the one panic value tryRestart treats differently).
	for _, mode := range []int{0, 1} {
		var v5, v6 []histParams
		for _, hs := range []string{"i", "im", "mim", "ixm", "xim", "iim", "mi"} {
			v5 = append(v5, histParams{Hist: hs, MaxRestarts: 2, Mode: mode, Late: true, Bystander: true})
		}
		v5 = append(v5, histParams{Hist: "im", MaxRestarts: 2, Mode: mode, Late: true, NMW: 1}, histParams{Hist: "mim", MaxRestarts: 2, Mode: mode, Late: true, Delay: true})
		for _, hc := range []struct {
			r int
			h string
		}{{0, "iX"}, {0, "iXm"}, {1, "xiX"}, {1, "ixX"}, {1, "xiXm"}, {1, "iXmX"}, {2, "xixX"}} {
			v6 = append(v6, histParams{Hist: hc.h, MaxRestarts: hc.r, Mode: mode, Late: true, Bystander: true})
		}
		// a parent that re-spawns its fixed-id child in every Started (a duplicate after a restart) and then
		// exhausts its budget: the child of the first incarnation goes down with it
		for _, hc := range []struct {
			r int
			h string
		}{{1, "xX"}, {1, "XmX"}, {2, "xxX"}} {
			v6 = append(v6, histParams{Hist: hc.h, MaxRestarts: hc.r, Mode: mode, Late: true, Child: true, ChildEvery: true})
		}
		Register(&Job{Name: fmt.Sprintf("C05/hist/internal-error-panics-mode%d", mode), Prop: "C05", Bound: 1, BoundT: 2, Budget: 40, BudgetT: 600,
			Desc: fmt.Sprintf("%d histories over {m,x,i}: i panics with *actor.InternalError (restarted like any panic; whether it consumes restart budget / publishes ActorRestartedEvent is left open, both readings accepted): containment, Stopped to the failed incarnation, tail delivered once and in order to the next", len(v5)),
			Make: func() vsched.Instance { return histInstance(v5, histOracle) }})
		Register(&Job{Name: fmt.Sprintf("C06/hist/internal-error-and-respawned-child-mode%d", mode), Prop: "C06", Bound: 1, BoundT: 2, Budget: 40, BudgetT: 600,
			Desc: fmt.Sprintf("%d histories: InternalError panics mixed with ordinary ones around the exhaustion of MaxRestarts 0..2 (the ordinary panic after the budget is used up terminates the actor, under either reading of InternalError); a parent that re-spawns its fixed-id child in every Started and then exhausts its budget takes the child down with it", len(v6)),
			Make: func() vsched.Instance { return histInstance(v6, histOracle) }})
	}

	// C06: budget exhaustion. MaxRestarts r, histories with exactly r+1 crashes among <=r+3 symbols.
	for _, mode := range []int{0, 1} {
		var vq, vt []histParams
		for r := 0; r <= 2; r++ {
			for _, h := range allHists("mX", r+3, func(h string) bool { return countAny(h, "X") == r+1 }) {
				p := histParams{Hist: h, MaxRestarts: r, Mode: mode, Late: true, Bystander: true}
				if len(h) <= r+2 {
					vq = append(vq, p)
				}
				vt = append(vt, p)
				if r == 1 {
					p.Delay = true
					vt = append(vt, p)
				}
			}
		}
		// the budget-exhausting panic is raised by a lifecycle handler (Started / Initialized), at the
		// initial spawn (on the spawning goroutine) or after a restart (on the worker)
		for _, lc := range []struct {
			r  int
			lc string
			h  string
		}{{0, "1S", "m"}, {0, "1I", "m"}, {1, "1S,2S", "m"}, {1, "2S", "Xm"}, {1, "2I", "mXm"}, {2, "2S,3S", "Xmm"}} {
			p := histParams{Hist: lc.h, MaxRestarts: lc.r, Mode: mode, Late: true, Bystander: true, LC: lc.lc}
			vq = append(vq, p)
			vt = append(vt, p)
		}
		for _, hc := range []struct {
			r int
			h string
		}{{0, "X"}, {0, "mX"}, {1, "XmX"}, {1, "xX"}} {
			p := histParams{Hist: hc.h, MaxRestarts: hc.r, Mode: mode, Late: true, Child: true}
			vq = append(vq, p)
			vt = append(vt, p)
		}
		Register(&Job{Name: fmt.Sprintf("C06/hist/exhaust-mode%d", mode), Prop: "C06", Bound: 1, BoundT: 2, Budget: 40, BudgetT: 600,
			Desc: fmt.Sprintf("%d histories over {m,X} with exactly MaxRestarts+1 crashes (MaxRestarts 0..2), late probe send, bystander, mode %d", len(vq), mode),
			Make: func() vsched.Instance { return histInstance(vq, histOracle) }})
		Register(&Job{Name: fmt.Sprintf("C06/hist/exhaust-long-mode%d", mode), Prop: "C06", Tier: "thorough", Bound: 1, BoundT: 2, Budget: 40, BudgetT: 900,
			Desc: fmt.Sprintf("%d histories over {m,X} with exactly MaxRestarts+1 crashes (MaxRestarts 0..2, restart delay 0 and >0), late probe send, bystander, mode %d", len(vt), mode),
			Make: func() vsched.Instance { return histInstance(vt, histOracle) }})
	}
	// C05/C06 mode 2: the tail of the history is sent by the failing Receive itself (it is in the ring behind the
	// current batch, not in the restart buffer): delivered to the next incarnation in order - or, when the actor
	// is terminated, to nobody.
	{
		var v5, v6 []histParams
		for _, hs := range []string{"xm", "xmm", "mxm", "xxm", "xmx"} {
			v5 = append(v5, histParams{Hist: hs, MaxRestarts: 3, Mode: 2, Late: true, Bystander: true}, histParams{Hist: hs, MaxRestarts: 3, Mode: 2, Late: true, Delay: true})
		}
		for _, hc := range []struct {
			r int
			h string
		}{{0, "Xm"}, {0, "Xmm"}, {0, "mXm"}, {1, "XXm"}, {1, "xXm"}, {1, "XmXm"}} {
			v6 = append(v6, histParams{Hist: hc.h, MaxRestarts: hc.r, Mode: 2, Late: true, Bystander: true}, histParams{Hist: hc.h, MaxRestarts: hc.r, Mode: 2, Late: true, Delay: true})
		}
		Register(&Job{Name: "C05/hist/tail-sent-by-the-failing-receive", Prop: "C05", Bound: 1, BoundT: 2, Budget: 40, BudgetT: 600, Shards: 5,
			Desc: fmt.Sprintf("%d variants: the messages behind the failing one are sent by the failing Receive itself right before it panics (they sit in the ring behind the batch being processed, not in the restart buffer), restart delay 0 and >0: delivered once, in order, to the next incarnation", len(v5)),
			Make: func() vsched.Instance { return histInstance(v5, histOracle) }})
		Register(&Job{Name: "C06/hist/tail-sent-by-the-failing-receive", Prop: "C06", Bound: 1, BoundT: 2, Budget: 40, BudgetT: 600, Shards: 6,
			Desc: fmt.Sprintf("%d variants: messages sent by the Receive whose panic exhausts the budget, right before it panics (in the ring behind the batch): the terminated actor handles none of them, later sends dead-letter", len(v6)),
			Make: func() vsched.Instance { return histInstance(v6, histOracle) }})
	}
	// C07: one stop request in a stream of messages (clean), two requests (trigger D3).
	for _, mode := range []int{0, 1} {
		one := mk(allHists("mPS", 4, func(h string) bool { return countAny(h, "PS") == 1 }), histParams{MaxRestarts: 3, Mode: mode, Late: true, WaitCtx: true, Watch: true})
		Register(&Job{Name: fmt.Sprintf("C07/hist/one-stop-mode%d", mode), Prop: "C07", Bound: 1, BoundT: 2, Budget: 40, BudgetT: 600,
			Desc: fmt.Sprintf("%d histories over {m,P,S} of length<=4 with exactly one stop request; the driver waits on the context, then probes", len(one)),
			Make: func() vsched.Instance { return histInstance(one, histOracle) }})
		two := mk(allHists("mPS", 3, func(h string) bool { return countAny(h, "PS") == 2 }), histParams{MaxRestarts: 3, Mode: mode, Late: true, Watch: true, SlowStop: true})
		Register(&Job{Name: fmt.Sprintf("C07/hist/two-stops-mode%d", mode), Prop: "C07", Family: "regression:D3 (fixed)", Bound: 1, BoundT: 2, Budget: 40, BudgetT: 600,
			Desc: fmt.Sprintf("%d histories over {m,P,S} of length<=3 with two stop requests", len(two)),
			Make: func() vsched.Instance { return histInstance(two, histOracle) }})
		// a crash and a stop request in one history. Clean: the crash comes before the stop request
		// (the pill is replayed from the restart buffer) or sits behind a non-graceful Stop (dropped).
		isD4 := crashBehindPoison // a panicking message queued behind a graceful pill
		oneEach := func(h string) bool { return countAny(h, "PS") == 1 && countAny(h, "x") == 1 }
		crashClean := mk(allHists("mxPS", 4, func(h string) bool { return oneEach(h) && !isD4(h) }), histParams{MaxRestarts: 3, Mode: mode, Late: true})
		Register(&Job{Name: fmt.Sprintf("C07/hist/crash-then-stop-mode%d", mode), Prop: "C07", Bound: 1, BoundT: 2, Budget: 40, BudgetT: 600,
			Desc: fmt.Sprintf("%d histories over {m,x,P,S} of length<=4 with one crash and one stop request, the crash in front of the request or behind a non-graceful Stop", len(crashClean)),
			Make: func() vsched.Instance { return histInstance(crashClean, histOracle) }})
		var sis []histParams
		for _, hs := range []string{"P", "S", "mP", "mS", "PP", "X", "mX"} {
			for _, k := range []int{1, 2} {
				r := 3
				if strings.ContainsAny(hs, "X") {
					r = 0
				}
				sis = append(sis, histParams{Hist: hs, MaxRestarts: r, Mode: mode, Late: true, StopInStop: k, Watch: true})
			}
		}
		Register(&Job{Name: fmt.Sprintf("C07/hist/stop-request-during-stopped-handler-mode%d", mode), Prop: "C07", Bound: 1, BoundT: 2, Budget: 40, BudgetT: 600,
			Desc: fmt.Sprintf("%d histories (stop request, two requests, or a crash beyond max restarts) in which a second party issues Poison/Stop while the receiver is inside its final Stopped handler: that context is not done when the call returns, and is done once the actor is gone", len(sis)),
			Make: func() vsched.Instance { return histInstance(sis, histOracle) }})
		var stopPanics []histParams
		for _, hs := range []string{"P", "mP", "S", "mS", "mPm"} {
			stopPanics = append(stopPanics, histParams{Hist: hs, MaxRestarts: 3, Mode: mode, Late: true, StopPanics: true})
		}
		Register(&Job{Name: fmt.Sprintf("C07/hist/stopped-handler-panics-mode%d", mode), Prop: "C07", Bound: 1, BoundT: 2, Budget: 40, BudgetT: 600,
			Desc: fmt.Sprintf("%d histories with one stop request in which the receiver panics while handling the Stopped of that request: the context still becomes done, the actor is gone, no new incarnation", len(stopPanics)),
			Make: func() vsched.Instance { return histInstance(stopPanics, histOracle) }})
		var behindEx []histParams
		for _, r := range []int{0, 1} {
			for _, h := range allHists("mXPS", 3, func(h string) bool { return countAny(h, "PS") == 1 && stopBehindExhaustion(h, r) }) {
				behindEx = append(behindEx, histParams{Hist: h, MaxRestarts: r, Mode: mode, Late: true})
			}
		}
		Register(&Job{Name: fmt.Sprintf("C07/hist/stop-behind-max-restarts-mode%d", mode), Prop: "C07", Family: "regression:D3 (fixed)", Bound: 1, BoundT: 2, Budget: 40, BudgetT: 600,
			Desc: fmt.Sprintf("%d histories over {m,X,P,S} of length<=3 (MaxRestarts 0,1) in which a stop request is queued behind the panic that exceeds max restarts", len(behindEx)),
			Make: func() vsched.Instance { return histInstance(behindEx, histOracle) }})
		crashD4 := mk(allHists("mxP", 3, func(h string) bool { return oneEach(h) && isD4(h) }), histParams{MaxRestarts: 3, Mode: mode, Late: true})
		// a crash in front of the pill and another one while the restart buffer is drained behind it
		for _, hs := range []string{"xPmxm", "xPxmm", "mPxmx", "xPmx", "xPxm"} {
			crashD4 = append(crashD4, histParams{Hist: hs, MaxRestarts: 3, Mode: mode, Late: true, Watch: true})
		}
		Register(&Job{Name: fmt.Sprintf("C07/hist/crash-behind-poison-mode%d", mode), Prop: "C07", Family: "regression:D4 (fixed)", Bound: 1, BoundT: 2, Budget: 40, BudgetT: 600,
			Desc: fmt.Sprintf("%d histories over {m,x,P} of length<=3 in which a message that panics is queued behind a graceful poison pill (crash while draining)", len(crashD4)),
			Make: func() vsched.Instance { return histInstance(crashD4, histOracle) }})
	}
	// C04: lifecycle protocol over all mixed histories (clean: at most one stop request, no crash
	// behind a graceful pill - those are the trigger families of D3/D4 under C07).
	for _, mode := range []int{0, 1} {
		keep := func(h string) bool { return countAny(h, "PS") <= 1 && !crashBehindPoison(h) }
		var vq, vt []histParams
		for _, r := range []int{0, 1, 2} {
			for _, h := range allHists("mxXPS", 3, keep) {
				if !stopBehindExhaustion(h, r) {
					vq = append(vq, histParams{Hist: h, MaxRestarts: r, Mode: mode, Late: true})
				}
			}
			for _, h := range allHists("mxXPS", 4, keep) {
				if !stopBehindExhaustion(h, r) {
					vt = append(vt, histParams{Hist: h, MaxRestarts: r, Mode: mode, Late: true, Delay: r == 1})
				}
			}
		}
		for _, hs := range []string{"P", "mS", "mPm", "xP"} {
			vq = append(vq, histParams{Hist: hs, MaxRestarts: 2, Mode: mode, Late: true, StopPanics: true})
		}
		for _, hs := range []string{"mxm", "xmm", "mxP", "xmS", "mXm"} {
			vq = append(vq, histParams{Hist: hs, MaxRestarts: 2, Mode: mode, Late: true, NMW: 1})
			vt = append(vt, histParams{Hist: hs, MaxRestarts: 2, Mode: mode, Late: true, NMW: 2})
		}
		Register(&Job{Name: fmt.Sprintf("C04/hist/mixed-len3-mode%d", mode), Prop: "C04", Bound: 1, BoundT: 2, Budget: 40, BudgetT: 600,
			Desc: fmt.Sprintf("%d (history, MaxRestarts 0..2) pairs: all histories over {m,x,X,P,S} of length<=3 with at most one stop request and no crash behind a graceful pill; per-incarnation protocol, exactly-once, order, final registry state, late probe", len(vq)),
			Make: func() vsched.Instance { return histInstance(vq, histOracle) }})
		Register(&Job{Name: fmt.Sprintf("C04/hist/mixed-len4-mode%d", mode), Prop: "C04", Tier: "thorough", Bound: 1, BoundT: 1, Budget: 40, BudgetT: 900,
			Desc: fmt.Sprintf("%d (history, MaxRestarts 0..2) pairs over {m,x,X,P,S} of length<=4", len(vt)),
			Make: func() vsched.Instance { return histInstance(vt, histOracle) }})
	}
	// C04: lifecycle handlers that panic, in histories that also carry a stop request: the incarnation whose
	// Initialized/Started failed is told Stopped itself (not its predecessor), the restart buffer - pill
	// included - survives a replacement incarnation that fails to start.
	for _, mode := range []int{0, 1} {
		var v []histParams
		for _, lc := range []string{"1I", "1S", "2I", "2S", "2I,3S"} {
			for _, h := range []string{"m", "xm", "xmP", "xP", "xmS", "mxm", "xmPm"} {
				if lc[0] != '1' && !strings.ContainsAny(h, "x") {
					continue
				}
				v = append(v, histParams{Hist: h, MaxRestarts: 4, Mode: mode, Late: true, LC: lc})
			}
		}
		Register(&Job{Name: fmt.Sprintf("C04/hist/lifecycle-handler-panics-mode%d", mode), Prop: "C04", Bound: 1, BoundT: 2, Budget: 40, BudgetT: 600, Shards: 4,
			Desc: fmt.Sprintf("%d (history, failing lifecycle handler) pairs: Initialized/Started of incarnation 1, 2 (and 3) panics once, in histories with a crash, a queued tail and a Poison/Stop: every incarnation - also one that never got past Initialized - is told Stopped exactly once and nothing afterwards, the tail and the pill survive a replacement incarnation that fails to start", len(v)),
			Make: func() vsched.Instance { return histInstance(v, histOracle) }})
	}
	// C13: middleware chains of length 1..3 on every lifecycle path.
	for n := 1; n <= 3; n++ {
		var vs []histParams
		for _, h := range []string{"m", "mm", "x", "mxm", "P", "mP", "S", "mS", "Pm"} {
			vs = append(vs, histParams{Hist: h, MaxRestarts: 1, NMW: n, Mode: 0})
			vs = append(vs, histParams{Hist: h, MaxRestarts: 1, NMW: n, Mode: 1})
		}
		for _, h := range []string{"X", "mX", "xX"} {
			vs = append(vs, histParams{Hist: h, MaxRestarts: map[string]int{"X": 0, "mX": 0, "xX": 1}[h], NMW: n, Mode: 0})
		}
		// the InternalError restart path; the chain given as two options; a second actor with another chain
		// spawned right afterwards (the late probe and Stopped still run through A's own chain)
		for _, h := range []string{"i", "mim"} {
			vs = append(vs, histParams{Hist: h, MaxRestarts: 1, NMW: n, Mode: 0}, histParams{Hist: h, MaxRestarts: 1, NMW: n, Mode: 1})
		}
		for _, h := range []string{"mm", "mmm", "Pmm", "mPmm", "mxmm", "mmS"} {
			vs = append(vs, histParams{Hist: h, MaxRestarts: 1, NMW: n, Mode: 0, Senders: true}, histParams{Hist: h, MaxRestarts: 1, NMW: n, Mode: 1, Senders: true})
		}
		for _, h := range []string{"m", "mxm", "mP"} {
			vs = append(vs, histParams{Hist: h, MaxRestarts: 1, NMW: n, Mode: 0, EmptyMW: true})
		}
		for _, h := range []string{"m", "x", "mP"} {
			vs = append(vs, histParams{Hist: h, MaxRestarts: 1, NMW: n, Mode: 1, Late: true, OtherMW: true})
			if n > 1 {
				vs = append(vs, histParams{Hist: h, MaxRestarts: 1, NMW: n, Mode: 0, Late: true, SplitMW: true})
			}
		}
		Register(&Job{Name: fmt.Sprintf("C13/hist/chain%d", n), Prop: "C13", Bound: 1, BoundT: 2, Budget: 40, BudgetT: 600,
			Desc: fmt.Sprintf("middleware chain of %d recording middlewares; %d histories covering spawn, stop, poison, crash/restart and max-restarts paths", n, len(vs)),
			Make: func() vsched.Instance { return histInstance(vs, histOracle) }})
	}
}
