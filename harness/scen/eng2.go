package scen

import (
	"context"
	"fmt"
	"sort"
	"strings"
	"time"

	"github.com/anthdm/hollywood/actor"
	"github.com/anthdm/hollywood/zzverif/vsched"
)

// ------------------------------------------------------------------ C11 request/response

type reqParams struct {
	Requesters int
	Replies    int  // replies per request (0..3)
	TwoTargets bool // requesters alternate between two echo actors
	SlowReply  bool // responder sleeps 2x the timeout (virtual) before replying
	LateReply  bool // responder sends one more reply after the requester is done (via Quiesce)
	LateResult bool // the requester lets more than the timeout pass (virtual sleep) before it calls Result: the reply is waiting by then
	Second     bool // every requester issues a second request afterwards, to an actor that never replies: it must time out
	Poke       bool // with Second: behind the second request the requester sends the silent actor a sender-less "poke", which it answers with Respond - that reply has no addressee and must not reach the pending request
	ViaActor   bool // the request is issued with Context.Request from inside an actor that was spawned WithContext(a cancelled context): the actor's own context has nothing to do with the request's timeout
	Hedge      bool // the target forwards the request to two replicas, both Respond: two replies from two goroutines race for one response PID - one wins, the other is a dead letter, nobody blocks
}

func (p reqParams) String() string {
	s := fmt.Sprintf("R%dk%dtwo%vslow%vlate%v", p.Requesters, p.Replies, p.TwoTargets, p.SlowReply, p.LateReply)
	if p.LateResult {
		s += "lateresult"
	}
	if p.Second {
		s += "second"
	}
	if p.Poke {
		s += "poke"
	}
	if p.ViaActor {
		s += "viaactor"
	}
	if p.Hedge {
		s += "hedge"
	}
	return s
}

type reqMsg struct{ N int }
type reqOutcome struct {
	payload  int
	got      any
	err      error
	t0, t1   int64
	respPID  string
	regAfter bool
	// second request (to a silent actor)
	got2 any
	err2 error
	did2 bool
}

func engRequest(variants []reqParams) vsched.Instance {
	var k *Kit
	var p reqParams
	var outs []*reqOutcome
	const timeout = 100 * time.Millisecond
	var lateTargets []*actor.PID
	replyAt := map[int]int64{} // payload -> virtual time at which the first reply had been handed over
	body := func() {
		p = variants[chooseVariant(len(variants))]
		k = NewKit()
		var replicas []*actor.PID
		echo := func(k *Kit, c *actor.Context, inc int) {
			if m, ok := c.Message().(reqMsg); ok {
				if p.Hedge && len(replicas) == 2 && c.PID().ID == "echo/a" {
					// hand the request on with the ORIGINAL sender (Context.Forward would name the forwarder)
					c.Engine().SendWithSender(replicas[0], m, c.Sender())
					c.Engine().SendWithSender(replicas[1], m, c.Sender())
					return
				}
				if p.SlowReply {
					vsched.Sleep(2 * timeout)
				}
				for i := 0; i < p.Replies; i++ {
					c.Respond(reqMsg{m.N + 1000})
					if _, ok := replyAt[m.N]; !ok {
						replyAt[m.N] = vsched.VNow() // the first reply has reached the mailbox (or was found undeliverable) by now
					}
				}
				if p.LateReply {
					lateTargets = append(lateTargets, c.Sender())
				}
			}
		}
		a := k.E.Spawn(k.Producer("A", echo), "echo", actor.WithID("a"))
		b := a
		if p.TwoTargets {
			b = k.E.Spawn(k.Producer("B", echo), "echo", actor.WithID("b"))
		}
		silent := k.E.Spawn(k.Producer("S", func(k *Kit, c *actor.Context, inc int) {
			if s, ok := c.Message().(string); ok && s == "poke" {
				c.Respond(reqMsg{9999}) // nobody asked: there is no sender to respond to
			}
		}), "silent", actor.WithID("1"))
		if p.Hedge {
			replicas = append(replicas, k.E.Spawn(k.Producer("R1", echo), "echo", actor.WithID("r1")), k.E.Spawn(k.Producer("R2", echo), "echo", actor.WithID("r2")))
		}
		var asker *actor.PID
		askerDone := make(chan struct{}, 4)
		if p.ViaActor {
			cctx, cancel := context.WithCancel(context.Background())
			cancel()
			asker = k.E.Spawn(k.Producer("Q", func(k *Kit, c *actor.Context, inc int) {
				if m, ok := c.Message().(reqMsg); ok {
					o := outs[m.N]
					resp := c.Request(a, reqMsg{m.N}, timeout)
					o.respPID = pidStr(resp.PID())
					o.t0 = vsched.VNow()
					o.got, o.err = resp.Result()
					o.t1 = vsched.VNow()
					parts := strings.SplitN(resp.PID().ID, "/", 2)
					o.regAfter = c.Engine().Registry.GetPID(parts[0], parts[1]) != nil
					vsched.Send(askerDone, struct{}{})
				}
			}), "asker", actor.WithID("1"), actor.WithContext(cctx))
		}
		vsched.EndSetup()
		k.Log = nil
		outs = make([]*reqOutcome, p.Requesters)
		for i := 0; i < p.Requesters; i++ {
			i := i
			tgt := a
			if i%2 == 1 {
				tgt = b
			}
			vsched.Go("requester", func() {
				o := &reqOutcome{payload: i}
				outs[i] = o
				if p.ViaActor {
					k.E.Send(asker, reqMsg{i})
					vsched.Recv(askerDone)
					return
				}
				resp := k.E.Request(tgt, reqMsg{i}, timeout)
				o.respPID = pidStr(resp.PID())
				if p.LateResult {
					vsched.Sleep(3 * timeout)
				}
				o.t0 = vsched.VNow()
				o.got, o.err = resp.Result()
				o.t1 = vsched.VNow()
				parts := strings.SplitN(resp.PID().ID, "/", 2)
				o.regAfter = k.E.Registry.GetPID(parts[0], parts[1]) != nil
				if p.Second {
					resp2 := k.E.Request(silent, reqMsg{500 + i}, timeout)
					if p.Poke {
						k.E.Send(silent, "poke")
					}
					o.got2, o.err2 = resp2.Result()
					o.did2 = true
				}
			})
		}
		vsched.Quiesce()
		for _, s := range lateTargets {
			k.E.Send(s, reqMsg{7777})
		}
		vsched.Quiesce()
	}
	check := func(r *vsched.Result) []vsched.Violation {
		var vs []vsched.Violation
		for _, pn := range r.Panics {
			vs = append(vs, V("panic-escaped", "%s: %s", p, firstLine(pn)))
		}
		if r.Diverged {
			return append(vs, V("diverged", "%s", p))
		}
		if len(vs) > 0 {
			return vs
		}
		if bl := blockedExcept(r); len(bl) > 0 {
			sig := "blocked/thread-blocked-at-quiescence"
			for _, b := range bl {
				if b.Op == "send" && strings.HasPrefix(b.Name, "actor/inbox.go") {
					sig = "blocked/responder-stuck-in-Response.Send"
				}
			}
			return append(vs, V(sig, "%s: %v", p, bl))
		}
		vs = append(vs, k.serial()...)
		for i, o := range outs {
			if o == nil {
				continue
			}
			switch {
			case o.err == nil:
				m, ok := o.got.(reqMsg)
				if !ok || m.N != o.payload+1000 {
					vs = append(vs, V("correlation/result-is-not-the-reply-to-this-request", "%s: requester %d (payload %d) got %v", p, i, o.payload, o.got))
				}
				if p.Replies == 0 {
					vs = append(vs, V("correlation/result-without-any-reply", "%s: requester %d got %v although the responder never replied", p, i, o.got))
				}
			default:
				if o.t1 < o.t0+int64(timeout) {
					vs = append(vs, V("timeout/error-before-timeout-elapsed", "%s: requester %d got %v after %dns (< %v)", p, i, o.err, o.t1-o.t0, timeout))
				}
				if o.got != nil {
					vs = append(vs, V("timeout/error-with-result", "%s: requester %d got both %v and %v", p, i, o.got, o.err))
				}
			}
			if at, replied := replyAt[o.payload]; replied && o.err != nil && at < o.t0+int64(timeout) {
				// The reply was handed over (in virtual time) before the earliest moment the timeout
				// can expire. If it sits unread in the mailbox, reply and timeout were both ready at the
				// select and either answer is accepted (§5 C11); if every reply was dead-lettered
				// instead, a reply sent in time never had a chance to reach the requester.
				dl := 0
				for _, e := range k.Events() {
					if strings.HasPrefix(e, "DeadLetter("+o.respPID+",") {
						dl++
					}
				}
				nrep := p.Replies
				if p.Hedge {
					nrep = 2 * p.Replies // both replicas reply
				}
				if dl >= nrep {
					vs = append(vs, V("timeout/reply-sent-in-time-was-undeliverable", "%s: requester %d: %v; Result called at %d, reply sent at %d, timeout %v, all %d replies dead-lettered; events %v", p, i, o.err, o.t0, at, timeout, nrep, k.Events()))
				}
			}
			if o.did2 && (o.err2 == nil || o.got2 != nil) {
				vs = append(vs, V("correlation/request-to-silent-actor-got-a-result", "%s: requester %d: second request, to an actor that never replies, returned (%v, %v)", p, i, o.got2, o.err2))
			}
			if o.regAfter {
				vs = append(vs, V("registry/response-pid-still-registered-after-result", "%s: requester %d: %s", p, i, o.respPID))
			}
		}
		if p.Hedge {
			for _, o := range outs {
				if o == nil {
					continue
				}
				n := 0
				for _, e := range k.Events() {
					if strings.HasPrefix(e, "DeadLetter("+o.respPID+",") {
						n++
					}
				}
				// At most one of the two replies can be the result. The surplus one is a dead letter if it arrives
				// after Result has returned (the response PID is gone); arriving in the window between the first
				// reply being taken and the PID being unregistered it is dropped without a report, and with reply
				// and timeout ready at the same moment the timeout may be taken (§5 C11) - neither is excluded by
				// the property. What is excluded: more reports than surplus replies, and a blocked replier (checked above).
				max := 1
				if o.err != nil {
					max = 2
				}
				if n > max {
					vs = append(vs, V("deadletter/more-dead-letters-than-surplus-replies", "%s: two replicas replied to %s, Result returned (%v, %v): %d dead letters, at most %d possible; events %v", p, o.respPID, o.got, o.err, n, max, k.Events()))
				}
			}
		}
		if p.LateReply {
			for _, o := range outs {
				n := 0
				for _, e := range k.Events() {
					if strings.HasPrefix(e, "DeadLetter("+o.respPID+",") && strings.Contains(e, "7777") {
						n++
					}
				}
				if n != 1 {
					vs = append(vs, V("deadletter/late-reply-not-dead-lettered-once", "%s: late reply to %s produced %d dead letters; events %v", p, o.respPID, n, k.Events()))
				}
			}
		}
		return vs
	}
	outcome := func() string {
		s := p.String() + ":"
		for _, o := range outs {
			if o != nil {
				s += fmt.Sprintf(" %d->%v/%v@%d", o.payload, o.got, o.err, o.t1-o.t0)
				if o.did2 {
					s += fmt.Sprintf("+%v/%v", o.got2, o.err2)
				}
			}
		}
		return s
	}
	return vsched.Instance{Body: body, Check: check, Outcome: outcome}
}

// ------------------------------------------------------------------ C12 event stream

type evtMsg struct{ N int }

// engEventSeq: all sequences of length<=depth over {sub(p), unsub(p), bcast} from one
// driver, PID objects pa, pa' (equal value, distinct object), pb; reference = set of PID values.
func engEventSeq(depth int, withClone bool) vsched.Instance { return engEventSeqFrom(depth, withClone, false, false) }

// engEventSeqFrom: withForeign adds pf, a PID with the id of pa but a foreign address (a different
// subscriber: subscribers are identified by address AND id); presub starts from the non-initial
// state in which pa and pb are already subscribed.
func engEventSeqFrom(depth int, withClone, withForeign, presub bool) vsched.Instance {
	var k *Kit
	var seq []string
	var want map[string][]int
	body := func() {
		k = NewKit()
		pa := k.E.Spawn(k.Producer("a", nil), "sub", actor.WithID("a"))
		pb := k.E.Spawn(k.Producer("b", nil), "sub", actor.WithID("b"))
		pa2 := actor.NewPID(pa.Address, pa.ID)
		member := map[string]bool{}
		if presub {
			k.E.Subscribe(pa)
			k.E.Subscribe(pb)
			member["a"], member["b"] = true, true
			seq = append(seq, "[pa,pb subscribed]")
		}
		vsched.EndSetup()
		pids := []*actor.PID{pa, pb}
		names := []string{"pa", "pb"}
		keys := []string{"a", "b"}
		if withClone {
			pids = append(pids, pa2)
			names = append(names, "pa'")
			keys = append(keys, "a")
		}
		if withForeign {
			pids = append(pids, actor.NewPID("10.0.0.7:4000", pa.ID))
			names = append(names, "pf")
			keys = append(keys, "f")
			// and one whose id no local actor has
			pids = append(pids, actor.NewPID("10.0.0.8:4000", "elsewhere/1"))
			names = append(names, "pg")
			keys = append(keys, "g")
		}
		want = map[string][]int{}
		n := 1 + vsched.Choose(depth)
		ev := 0
		for i := 0; i < n; i++ {
			op := vsched.Choose(1 + 2*len(pids))
			switch {
			case op == 0:
				ev++
				seq = append(seq, fmt.Sprintf("bcast(%d)", ev))
				k.E.BroadcastEvent(evtMsg{ev})
				for _, nm := range []string{"a", "b", "f", "g"} {
					if member[nm] {
						want[nm] = append(want[nm], ev)
					}
				}
			case op <= len(pids):
				j := op - 1
				seq = append(seq, "sub("+names[j]+")")
				k.E.Subscribe(pids[j])
				member[keys[j]] = true
			default:
				j := op - 1 - len(pids)
				seq = append(seq, "unsub("+names[j]+")")
				k.E.Unsubscribe(pids[j])
				member[keys[j]] = false
			}
		}
		vsched.Quiesce()
	}
	check := func(r *vsched.Result) []vsched.Violation {
		vs := stdEnd(r)
		if len(vs) > 0 {
			return vs
		}
		for _, nm := range []string{"a", "b"} {
			var got []int
			for _, e := range k.Recv(nm) {
				if m, ok := e.Raw.(evtMsg); ok {
					got = append(got, m.N)
				}
			}
			if fmt.Sprint(got) != fmt.Sprint(want[nm]) {
				sig := "eventstream/wrong-deliveries"
				switch {
				case len(got) > len(want[nm]) && hasDup(got):
					sig = "eventstream/duplicate-delivery"
				case len(got) > len(want[nm]):
					sig = "eventstream/delivery-to-non-subscriber"
				case len(got) < len(want[nm]):
					sig = "eventstream/missing-delivery"
				}
				vs = append(vs, V(sig, "history %v: subscriber %s received %v, want %v", seq, nm, got, want[nm]))
			}
		}
		if withForeign {
			// what was forwarded to the subscriber on the other node shows as one EngineRemoteMissingEvent each
			// (this engine has no remote): exactly the events broadcast while it was subscribed
			for key, addr := range map[string]string{"f": "10.0.0.7:4000", "g": "10.0.0.8:4000"} {
				var got []int
				for _, e := range k.Log {
					if rm, ok := e.Raw.(actor.EngineRemoteMissingEvent); ok && e.Kind == "event" && rm.Target != nil && rm.Target.Address == addr {
						if m, ok := rm.Message.(evtMsg); ok {
							got = append(got, m.N)
						}
					}
				}
				sort.Ints(got)
				if fmt.Sprint(got) != fmt.Sprint(append([]int{}, want[key]...)) {
					sig := "eventstream/missing-delivery"
					if len(got) > len(want[key]) {
						sig = "eventstream/delivery-to-non-subscriber"
					}
					vs = append(vs, V(sig, "history %v: events forwarded to the subscriber on node %s %v, want %v", seq, addr, got, want[key]))
				}
			}
		}
		return vs
	}
	outcome := func() string { return strings.Join(seq, ",") }
	return vsched.Instance{Body: body, Check: check, Outcome: outcome}
}

func hasDup(xs []int) bool {
	m := map[int]bool{}
	for _, x := range xs {
		if m[x] {
			return true
		}
		m[x] = true
	}
	return false
}

// engEventConc: two subscribers, B concurrent broadcasters x M events each.
func engEventConc(nb, m int) vsched.Instance {
	var k *Kit
	body := func() {
		k = NewKit()
		pa := k.E.Spawn(k.Producer("a", nil), "sub", actor.WithID("a"))
		pb := k.E.Spawn(k.Producer("b", nil), "sub", actor.WithID("b"))
		k.E.Subscribe(pa)
		k.E.Subscribe(pb)
		vsched.EndSetup()
		for t := 0; t < nb; t++ {
			t := t
			vsched.Go("broadcaster", func() {
				for i := 0; i < m; i++ {
					k.E.BroadcastEvent(evtMsg{t*100 + i})
				}
			})
		}
		vsched.Quiesce()
	}
	check := func(r *vsched.Result) []vsched.Violation {
		vs := stdEnd(r)
		if len(vs) > 0 {
			return vs
		}
		for _, nm := range []string{"a", "b"} {
			cnt := map[int]int{}
			last := map[int]int{}
			for _, e := range k.Recv(nm) {
				if em, ok := e.Raw.(evtMsg); ok {
					cnt[em.N]++
					t := em.N / 100
					if l, ok := last[t]; ok && l > em.N {
						vs = append(vs, V("eventstream/broadcast-order-not-preserved", "subscriber %s got %d after %d", nm, em.N, l))
					}
					last[t] = em.N
				}
			}
			for t := 0; t < nb; t++ {
				for i := 0; i < m; i++ {
					if c := cnt[t*100+i]; c != 1 {
						sig := "eventstream/missing-delivery"
						if c > 1 {
							sig = "eventstream/duplicate-delivery"
						}
						vs = append(vs, V(sig, "subscriber %s received event %d %d times", nm, t*100+i, c))
					}
				}
			}
		}
		return vs
	}
	outcome := func() string {
		if k == nil {
			return ""
		}
		s := ""
		for _, e := range k.Recv("a") {
			if em, ok := e.Raw.(evtMsg); ok {
				s += fmt.Sprint(em.N, " ")
			}
		}
		return s
	}
	return vsched.Instance{Body: body, Check: check, Outcome: outcome}
}

// engEventDyingSubscriber: three subscribers a, b, c (subscribed in every order); b stops without
// unsubscribing; then two events are broadcast. a and c must each get ActorStopped(b) once and
// both broadcasts once, in order, whatever the position of b among the subscribers.
func engEventDyingSubscriber() vsched.Instance {
	var k *Kit
	var order []int
	body := func() {
		k = NewQuietKit()
		k.E = func() *actor.Engine { e, _ := actor.NewEngine(actor.NewEngineConfig()); return e }() // events are what we look at: a normal engine
		names := []string{"a", "b", "c"}
		pids := map[string]*actor.PID{}
		for _, n := range names {
			n := n
			pids[n] = k.E.Spawn(k.Producer(n, nil), "sub", actor.WithID(n))
		}
		vsched.EndSetup()
		perm := [][]int{{0, 1, 2}, {0, 2, 1}, {1, 0, 2}, {1, 2, 0}, {2, 0, 1}, {2, 1, 0}}[vsched.Choose(6)]
		order = perm
		for _, i := range perm {
			k.E.Subscribe(pids[names[i]])
		}
		vsched.Quiesce()
		vsched.Recv(k.E.Poison(pids["b"]).Done())
		k.E.BroadcastEvent(evtMsg{1})
		k.E.BroadcastEvent(evtMsg{2})
		vsched.Quiesce()
		// an actor with the same kind and id is spawned again and subscribes: a new subscription
		nb := k.E.Spawn(k.Producer("b2", nil), "sub", actor.WithID("b"))
		k.E.Subscribe(nb)
		k.E.BroadcastEvent(evtMsg{3})
		vsched.Quiesce()
	}
	check := func(r *vsched.Result) []vsched.Violation {
		vs := stdEnd(r)
		if len(vs) > 0 {
			return vs
		}
		var gotB2 []int
		for _, e := range k.Recv("b2") {
			if m, ok := e.Raw.(evtMsg); ok {
				gotB2 = append(gotB2, m.N)
			}
		}
		if fmt.Sprint(gotB2) != "[3]" {
			vs = append(vs, V("eventstream/resubscribed-actor-misses-events", "subscription order %v: sub/b stopped without unsubscribing, an actor with the same id was spawned and subscribed, then event 3 was broadcast: it received %v, want [3]", order, gotB2))
		}
		for _, nm := range []string{"a", "c"} {
			var got []string
			for _, e := range k.Recv(nm) {
				switch m := e.Raw.(type) {
				case evtMsg:
					got = append(got, fmt.Sprint("e", m.N))
				case actor.ActorStoppedEvent:
					got = append(got, "stopped:"+m.PID.ID)
				}
			}
			if want := "[stopped:sub/b e1 e2 e3]"; fmt.Sprint(got) != want {
				vs = append(vs, V("eventstream/live-subscriber-misses-or-repeats-an-event", "subscription order %v, b stopped without unsubscribing: subscriber %s received %v, want %s", order, nm, got, want))
			}
		}
		return vs
	}
	outcome := func() string { return fmt.Sprint(order) }
	return vsched.Instance{Body: body, Check: check, Outcome: outcome}
}

// engEngineEvents: the engine's own lifecycle events reach a monitor exactly once per occurrence.
func engEngineEvents() vsched.Instance {
	var k *Kit
	body := func() {
		k = NewKit()
		vsched.EndSetup()
		k.Log = nil
		paniced := false
		pid := k.E.Spawn(k.Producer("A", func(k *Kit, c *actor.Context, inc int) {
			if m, ok := c.Message().(int); ok && m == 1 && !paniced {
				paniced = true
				panic("once")
			}
		}), "a", actor.WithID("1"), actor.WithRestartDelay(0))
		k.E.Spawn(k.Producer("A", nil), "a", actor.WithID("1")) // duplicate id
		k.E.Send(pid, 1)                                         // crash + restart
		k.E.Send(actor.NewPID("local", "nobody/1"), 5)           // dead letter
		k.E.Send(actor.NewPID("10.0.0.9:4000", "far/1"), 6)      // no remote: EngineRemoteMissingEvent (sent without sender)
		vsched.Go("stopper", func() { vsched.Recv(k.E.Poison(pid).Done()) })
		vsched.Quiesce()
	}
	check := func(r *vsched.Result) []vsched.Violation {
		vs := stdEnd(r)
		if len(vs) > 0 {
			return vs
		}
		want := map[string]int{
			"ActorInitialized(local/a/1)": 2, "ActorStarted(local/a/1)": 2, "ActorRestarted(local/a/1,1)": 1,
			"ActorDuplicateId(local/a/1)": 1, "DeadLetter(local/nobody/1,m5,)": 1, "ActorStopped(local/a/1)": 1,
			"EngineRemoteMissing(10.0.0.9:4000/far/1,m6,)": 1,
		}
		got := map[string]int{}
		for _, e := range k.Events() {
			got[e]++
		}
		for w, n := range want {
			if got[w] != n {
				vs = append(vs, V("engine-events/"+strings.SplitN(w, "(", 2)[0]+"-count-wrong", "monitor saw %q %d times, want %d; events: %v", w, got[w], n, k.Events()))
			}
		}
		for g := range got {
			if _, ok := want[g]; !ok {
				vs = append(vs, V("engine-events/unexpected-event", "monitor saw %q; events %v", g, k.Events()))
			}
		}
		return vs
	}
	outcome := func() string {
		if k == nil {
			return ""
		}
		return strings.Join(k.Events(), " ")
	}
	return vsched.Instance{Body: body, Check: check, Outcome: outcome}
}

// ------------------------------------------------------------------ C08 supervision tree

type treeParams struct {
	Depth, Fan int
	Stop       int // how the root is stopped: 1 Poison, 2 Stop
	// Extra: what else happens.
	//   racing with the root's shutdown: 0 nothing, 1 a leaf stops itself (poisons its own pid from a message),
	//   2 a leaf panics once on a message, 3 a third party poisons a leaf, 5 a leaf panics on every delivery of a message (exceeds max restarts)
	//   before the root's shutdown (quiescence in between): 4 Children() queried while a leaf stops itself, then again afterwards,
	//   6 a leaf panics once and is restarted, 7 the root panics once and is restarted,
	//   8 the root has one more child that dies during its own start (Started panics, MaxRestarts 0); Children() is queried
	//   9 a leaf panics (once) inside its final Stopped handler
	//   10 every actor of the tree is spawned WithContext(a context that is cancelled already)
	//   11 a third party poisons a leaf; while the leaf is inside its Stopped handler (it blocks there until the
	//      driver releases it) another thread poisons the root: the shutdown reaches a child that is stopping already
	//   12 children have MaxRestarts 0; a leaf is busy with a message (it blocks in Receive until the driver releases
	//      it) when another thread poisons the root - the parent's stop request for the leaf is pending - and then
	//      the leaf panics on that message: the budget-exhaustion path has to signal the waiting parent
	//   13 every incarnation of an actor spawns its (fixed-id) children in Started; the root panics once and restarts,
	//      the second round of SpawnChild calls are duplicates: the children of the first round stay its children
	Extra int
}

func (p treeParams) String() string {
	return fmt.Sprintf("%dx%dstop%dextra%d", p.Depth, p.Fan, p.Stop, p.Extra)
}

type childrenObs struct {
	at    vsched.VC
	names []string
	nils  int
	who   string
}

func engTree(variants []treeParams) vsched.Instance {
	var k *Kit
	var p treeParams
	parentOf := map[string]string{}
	parentSeen := map[string]string{}
	var obs []childrenObs
	var rootPID *actor.PID
	var leaf *actor.PID
	type regObs struct {
		inc  int
		what string
	}
	regAtStopped := map[string][]regObs{} // per actor: descendants still registered inside its Stopped handler, by incarnation
	var ctxDoneLogIdx = -1
	pids := map[string]*actor.PID{}
	crashed := map[string]bool{}
	stoppedSelf := ""
	stopPaniced := false
	inHandler := false
	release := make(chan struct{})
	body := func() {
		p = variants[chooseVariant(len(variants))]
		k = NewKit()
		leafName := "r"
		for d := 0; d < p.Depth; d++ {
			leafName += ".0"
		}
		var spawnOpts []actor.OptFunc
		if p.Extra == 10 {
			cctx, cancel := context.WithCancel(context.Background())
			cancel()
			spawnOpts = append(spawnOpts, actor.WithContext(cctx))
		}
		var childOpts []actor.OptFunc
		if p.Extra == 12 {
			childOpts = append(childOpts, actor.WithMaxRestarts(0))
		}
		var mk func(name string, depth int) Behaviour
		mk = func(name string, depth int) Behaviour {
			return func(k *Kit, c *actor.Context, inc int) {
				switch m := c.Message().(type) {
				case actor.Started:
					pids[name] = c.PID()
					if pp := c.Parent(); pp != nil {
						parentSeen[name] = pidStr(pp)
					}
					if depth == 0 && inc == 1 && p.Extra == 8 {
						// a child that dies during its own start: Started panics and it may not be restarted
						c.SpawnChild(k.Producer("dead", func(k *Kit, c *actor.Context, inc int) {
							if _, ok := c.Message().(actor.Started); ok {
								panic("dies during start")
							}
						}), "n", actor.WithID("dead"), actor.WithMaxRestarts(0))
					}
					if depth < p.Depth && (inc == 1 || p.Extra == 13) { // children survive a restart of their parent: spawn them once (extra 13: try again, duplicates)
						for i := 0; i < p.Fan; i++ {
							cn := fmt.Sprintf("%s.%d", name, i)
							parentOf[cn] = name
							c.SpawnChild(k.Producer(cn, mk(cn, depth+1)), "n", append([]actor.OptFunc{actor.WithID(cn), actor.WithRestartDelay(0)}, append(spawnOpts, childOpts...)...)...)
						}
					}
				case actor.Stopped:
					defer k.Note(name, "handled-stopped")
					// all descendants must be unregistered by now
					for dn, dp := range pids {
						if dn != name && strings.HasPrefix(dn, name+".") && c.GetPID(dp.ID) != nil {
							regAtStopped[name] = append(regAtStopped[name], regObs{inc, name + ">" + dn})
						}
					}
					if p.Extra == 9 && name == leafName && !stopPaniced {
						stopPaniced = true
						panic("in the Stopped handler")
					}
					if p.Extra == 11 && name == leafName && !inHandler {
						inHandler = true
						e := c.Engine()
						vsched.Go("shutdown", func() { e.Poison(rootPID) })
						vsched.Recv(release)
					}
				case string:
					switch m {
					case "selfstop":
						c.Engine().Poison(c.PID())
					case "crash":
						panic("crash")
					case "crashbusy":
						if !inHandler {
							inHandler = true
							e := c.Engine()
							vsched.Go("shutdown", func() { e.Poison(rootPID) })
							vsched.Recv(release)
						}
						panic("crash while the parent is waiting for this child to stop")
					case "crash1":
						if !crashed[name] {
							crashed[name] = true
							panic("crash once")
						}
					case "query":
						o := childrenObs{who: name}
						for _, ch := range c.Children() {
							if ch == nil {
								o.nils++
							} else {
								o.names = append(o.names, ch.ID)
							}
						}
						o.at = vsched.Clock()
						obs = append(obs, o)
					}
				}
			}
		}
		rootPID = k.E.Spawn(k.Producer("r", mk("r", 0)), "n", append([]actor.OptFunc{actor.WithID("r"), actor.WithRestartDelay(0)}, spawnOpts...)...)
		vsched.EndSetup()
		// pick the first leaf
		ln := "r"
		for d := 0; d < p.Depth; d++ {
			ln += ".0"
		}
		leaf = pids[ln]
		ln0 := ln
		switch p.Extra {
		case 1:
			vsched.Go("disturb", func() { k.E.Send(leaf, "selfstop") })
		case 2:
			vsched.Go("disturb", func() { k.E.Send(leaf, "crash1") })
		case 3:
			vsched.Go("disturb", func() { k.E.Poison(leaf) })
		case 5:
			vsched.Go("disturb", func() { k.E.Send(leaf, "crash") })
		case 4:
			// Children() racing with a child that stops on its own; the root is stopped afterwards
			parent := rootPID
			if p.Depth == 2 {
				parent = pids["r.0"]
			}
			vsched.Go("disturb", func() { k.E.Send(parent, "query"); k.E.Send(leaf, "selfstop"); k.E.Send(parent, "query") })
			vsched.Quiesce()
			stoppedSelf = ln0
			k.E.Send(parent, "query")
			vsched.Quiesce()
		case 8:
			k.E.Send(rootPID, "query")
			vsched.Quiesce()
		case 6:
			k.E.Send(leaf, "crash1")
			vsched.Quiesce()
		case 7:
			k.E.Send(rootPID, "crash1")
			vsched.Quiesce()
		case 12:
			k.E.Send(leaf, "crashbusy")
			vsched.Quiesce()
			if inHandler {
				vsched.Send(release, struct{}{})
			}
			vsched.Quiesce()
		case 13:
			k.E.Send(rootPID, "crash1")
			vsched.Quiesce()
			k.E.Send(rootPID, "query")
			vsched.Quiesce()
			if p.Depth == 1 {
				// one of the children (whose entry a duplicate spawn has touched) now stops on its own
				k.E.Send(leaf, "selfstop")
				vsched.Quiesce()
				stoppedSelf = ln0
				k.E.Send(rootPID, "query")
				vsched.Quiesce()
			}
		case 11:
			k.E.Poison(leaf)
			vsched.Quiesce()
			if inHandler {
				vsched.Send(release, struct{}{})
			}
			vsched.Quiesce()
		}
		vsched.Go("stopper", func() {
			var done <-chan struct{}
			if p.Stop == 1 {
				done = k.E.Poison(rootPID).Done()
			} else {
				done = k.E.Stop(rootPID).Done()
			}
			vsched.Recv(done)
			vsched.Touch("log")
			ctxDoneLogIdx = len(k.Log)
		})
		vsched.Quiesce()
	}
	check := func(r *vsched.Result) []vsched.Violation {
		var vs []vsched.Violation
		for _, pn := range r.Panics {
			vs = append(vs, V("panic-escaped", "%s: %s", p, firstLine(pn)))
		}
		if r.Diverged {
			return append(vs, V("diverged", "%s", p))
		}
		if len(vs) > 0 {
			return vs
		}
		if bl := blockedExcept(r); len(bl) > 0 {
			return append(vs, V("hang/shutdown-blocked", "%s: blocked at quiescence: %v; log: %s", p, bl, k.LogString()))
		}
		vs = append(vs, k.serial()...)
		// position of each actor's Stopped in the global log
		stoppedAt := map[string]int{}
		for i, e := range k.Log {
			if e.Kind == "recv" && e.Msg == "Stopped" {
				// the Stopped of the final incarnation: a crashed incarnation is also told Stopped, but
				// the actor itself lives on (restart) and keeps its children
				if e.Inc == k.Incs(e.Actor) {
					stoppedAt[e.Actor] = i
				}
			}
		}
		// position at which each actor's (last) Stopped handler returned
		handledAt := map[string]int{}
		for i, e := range k.Log {
			if e.Kind == "note" && e.Msg == "handled-stopped" {
				handledAt[e.Actor] = i
			}
		}
		for child, parent := range parentOf {
			ch, ok1 := handledAt[child]
			ps, ok2 := stoppedAt[parent]
			if ok1 && ok2 && ch > ps {
				vs = append(vs, V("tree/parent-stopped-before-descendant-finished-stopped", "%s: %s handled Stopped while its child %s was still inside its Stopped handler; log: %s", p, parent, child, k.LogString()))
			}
		}
		if ctxDoneLogIdx >= 0 {
			for name, at := range handledAt {
				if at >= ctxDoneLogIdx {
					vs = append(vs, V("tree/stop-context-done-before-descendants-stopped", "%s: root stop context done before %s finished handling Stopped", p, name))
				}
			}
		}
		for name := range pids {
			if _, ok := stoppedAt[name]; !ok {
				vs = append(vs, V("tree/descendant-never-stopped", "%s: %s never handled Stopped; log: %s", p, name, k.LogString()))
			}
		}
		for child, parent := range parentOf {
			cs, ok1 := stoppedAt[child]
			ps, ok2 := stoppedAt[parent]
			if ok1 && ok2 && cs > ps {
				vs = append(vs, V("tree/parent-stopped-before-descendant", "%s: %s handled Stopped before its child %s; log: %s", p, parent, child, k.LogString()))
			}
			if want := pidStr(pids[parent]); parentSeen[child] != want {
				vs = append(vs, V("tree/wrong-parent", "%s: Parent() of %s is %q, want %q", p, child, parentSeen[child], want))
			}
		}
		var regBad []string
		for name, obs := range regAtStopped {
			for _, o := range obs {
				if o.inc == k.Incs(name) {
					regBad = append(regBad, o.what)
				}
			}
		}
		sort.Strings(regBad)
		if len(regBad) > 0 {
			vs = append(vs, V("tree/descendant-registered-while-ancestor-handles-stopped", "%s: %v", p, regBad))
		}
		if ctxDoneLogIdx >= 0 {
			for name, at := range stoppedAt {
				if at >= ctxDoneLogIdx {
					vs = append(vs, V("tree/stop-context-done-before-descendants-stopped", "%s: root stop context done before %s handled Stopped", p, name))
				}
			}
		}
		for name, pd := range pids {
			parts := strings.SplitN(pd.ID, "/", 2)
			_ = parts
			if k.E.Registry.GetPID("n", strings.TrimPrefix(pd.ID, "n/")) != nil {
				vs = append(vs, V("tree/descendant-still-registered", "%s: %s still registered at quiescence", p, name))
			}
		}
		if p.Extra == 4 && len(obs) > 0 {
			last := obs[len(obs)-1]
			wantN := 0
			for cn, par := range parentOf {
				if par == last.who && cn != stoppedSelf {
					wantN++
				}
			}
			for _, n := range last.names {
				if pids[stoppedSelf] != nil && n == pids[stoppedSelf].ID {
					vs = append(vs, V("children/stopped-child-still-listed", "%s: Children() of %s still lists %s after it stopped on its own", p, last.who, n))
				}
			}
			if len(last.names) != wantN {
				vs = append(vs, V("children/live-child-missing", "%s: Children() of %s lists %v, want %d live children", p, last.who, last.names, wantN))
			}
		}
		if p.Extra == 13 && len(obs) > 0 {
			first := obs[0]
			if len(first.names) != p.Fan {
				vs = append(vs, V("children/live-child-missing", "%s: after the root restarted and tried to spawn its children again (duplicates) Children() lists %v, want its %d live children", p, first.names, p.Fan))
			}
			if p.Depth == 1 && len(obs) > 1 {
				last := obs[len(obs)-1]
				for _, n := range last.names {
					if pids[stoppedSelf] != nil && n == pids[stoppedSelf].ID {
						vs = append(vs, V("children/stopped-child-still-listed", "%s: Children() of %s still lists %s after it stopped on its own", p, last.who, n))
					}
				}
				if len(last.names) != p.Fan-1 && len(vs) == 0 {
					vs = append(vs, V("children/live-child-missing", "%s: Children() of %s lists %v, want %d live children", p, last.who, last.names, p.Fan-1))
				}
			}
		}
		for _, o := range obs {
			if o.nils > 0 {
				vs = append(vs, V("children/nil-entry", "%s: Children() of %s contained %d nil entries (%v)", p, o.who, o.nils, o.names))
			}
			for _, n := range o.names {
				if strings.HasSuffix(n, "/n/dead") {
					vs = append(vs, V("children/dead-child-listed", "%s: Children() of %s lists %s, a child that died during its own start (Started panicked, MaxRestarts 0) and is not registered", p, o.who, n))
					continue
				}
				found := false
				for cn := range parentOf {
					if parentOf[cn] == o.who && pids[cn] != nil && pids[cn].ID == n {
						found = true
					}
				}
				if !found {
					vs = append(vs, V("children/unknown-entry", "%s: Children() of %s lists %s", p, o.who, n))
				}
			}
		}
		return vs
	}
	outcome := func() string {
		if k == nil {
			return ""
		}
		var st []string
		for _, e := range k.Log {
			if e.Kind == "recv" && e.Msg == "Stopped" {
				st = append(st, e.Actor)
			}
		}
		var ob []string
		for _, o := range obs {
			sort.Strings(o.names)
			ob = append(ob, fmt.Sprint(o.names, o.nils))
		}
		return p.String() + ": " + strings.Join(st, ">") + " " + strings.Join(ob, ";")
	}
	return vsched.Instance{Body: body, Check: check, Outcome: outcome}
}
