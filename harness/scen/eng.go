package scen

import (
	"time"
	"fmt"
	"sort"
	"strings"

	"github.com/anthdm/hollywood/actor"
	"github.com/anthdm/hollywood/zzverif/vsched"
)

// ------------------------------------------------------------------ C01 / C02 engine level

// sendRec records one send: start is the sender's vector clock just before the call, end
// the clock just after it returned. Send a happened-before send b iff a.end <= b.start (the
// whole call of a, including its push, is ordered before b starts by real synchronisation).
type sendRec struct {
	id     int
	sender string
	start  vsched.VC
	end    vsched.VC
}

type engDelivParams struct {
	Size     int
	Chan     bool // second phase started through a hooked channel by the first sender
	ActorSnd bool // one sender is an actor doing two c.Send inside one Receive
	NThreads int
	PerT     int
}

func (p engDelivParams) String() string {
	return fmt.Sprintf("s%dT%dm%dchan%vact%v", p.Size, p.NThreads, p.PerT, p.Chan, p.ActorSnd)
}

// engDelivery: concurrent senders (plain threads and an actor) to one live actor through the
// public API; exactly-once, content, sender, happens-before order.
func engDelivery(variants []engDelivParams) vsched.Instance {
	var k *Kit
	var sends []sendRec
	var p engDelivParams
	body := func() {
		p = variants[chooseVariant(len(variants))]
		k = NewKit()
		a := k.E.Spawn(k.Producer("A", nil), "a", actor.WithID("1"), actor.WithInboxSize(p.Size))
		var b *actor.PID
		if p.ActorSnd {
			b = k.E.Spawn(k.Producer("B", func(k *Kit, c *actor.Context, inc int) {
				if m, ok := c.Message().(int); ok && m == 500 {
					for i := 0; i < 2; i++ {
						r := sendRec{id: 300 + i, sender: pidStr(c.PID()), start: vsched.Clock()}
						c.Send(a, 300+i)
						r.end = vsched.Clock()
						vsched.Touch("sends")
						sends = append(sends, r)
					}
				}
			}), "b", actor.WithID("1"))
		}
		vsched.EndSetup()
		snd := []*actor.PID{nil, actor.NewPID("local", "s/1"), actor.NewPID("local", "s/2")}
		ch := make(chan struct{}, 1)
		for t := 0; t < p.NThreads; t++ {
			t := t
			vsched.Go("sender", func() {
				if p.Chan && t == 1 {
					vsched.Recv(ch)
				}
				for i := 0; i < p.PerT; i++ {
					id := t*100 + i
					s := snd[(t+i)%3]
					r := sendRec{id: id, sender: pidStr(s), start: vsched.Clock()}
					if s == nil {
						k.E.Send(a, id)
					} else {
						k.E.SendWithSender(a, id, s)
					}
					r.end = vsched.Clock()
					vsched.Touch("sends")
					sends = append(sends, r)
				}
				if p.Chan && t == 0 {
					vsched.Send(ch, struct{}{})
				}
			})
		}
		if p.ActorSnd {
			k.E.Send(b, 500)
		}
		vsched.Quiesce()
	}
	check := func(r *vsched.Result) []vsched.Violation {
		vs := stdEnd(r)
		if len(vs) > 0 {
			return vs
		}
		vs = append(vs, k.serial()...)
		got := userMsgs(k.Recv("A"))
		pos := map[int]int{}
		cnt := map[int]int{}
		for i, e := range got {
			id := e.Raw.(int)
			cnt[id]++
			pos[id] = i
		}
		want := map[int]sendRec{}
		for _, s := range sends {
			want[s.id] = s
		}
		for id, s := range want {
			switch {
			case cnt[id] == 0:
				vs = append(vs, V("loss/message-not-delivered", "%s: message %d never delivered; log: %s", p, id, k.LogString()))
			case cnt[id] > 1:
				vs = append(vs, V("duplicate/message-delivered-twice", "%s: message %d delivered %d times; log: %s", p, id, cnt[id], k.LogString()))
			default:
				if got[pos[id]].Sender != s.sender {
					vs = append(vs, V("content/wrong-sender", "%s: message %d sent with sender %q arrived with %q", p, id, s.sender, got[pos[id]].Sender))
				}
			}
		}
		for id := range cnt {
			if _, ok := want[id]; !ok {
				vs = append(vs, V("content/unknown-message", "message %d was never sent", id))
			}
		}
		for i := range sends {
			for j := range sends {
				a, b := sends[i], sends[j]
				if i != j && a.end.Leq(b.start) && cnt[a.id] == 1 && cnt[b.id] == 1 && pos[a.id] > pos[b.id] {
					vs = append(vs, V("order/hb-ordered-sends-reordered", "%s: send %d happened-before send %d but was delivered after it; log: %s", p, a.id, b.id, k.LogString()))
				}
			}
		}
		return vs
	}
	outcome := func() string {
		if k == nil {
			return ""
		}
		var ids []string
		for _, e := range userMsgs(k.Recv("A")) {
			ids = append(ids, e.Msg)
		}
		return p.String() + ":" + strings.Join(ids, ",")
	}
	return vsched.Instance{Body: body, Check: check, Outcome: outcome}
}

// engLifecycleRace (C02, C04): spawner thread, senders to the pre-computed PID, a stopper,
// a receiver that panics once on a designated message.
type lifeRaceParams struct {
	Senders  int
	PerT     int
	Stopper  int // 0 none, 1 Poison, 2 Stop
	CrashMsg int // message id that panics once (-1 none)
	Yield    bool
}

func (p lifeRaceParams) String() string {
	return fmt.Sprintf("snd%dx%dstop%dcrash%d", p.Senders, p.PerT, p.Stopper, p.CrashMsg)
}

func engLifecycleRace(variants []lifeRaceParams) vsched.Instance {
	var k *Kit
	var p lifeRaceParams
	type sent struct {
		id  int
		end vsched.VC // sender's clock after the send returned
	}
	var sends []sent
	var stopVC vsched.VC
	stopIssued := false
	spawnReturned := false
	startedAtReturn := false
	body := func() {
		p = variants[chooseVariant(len(variants))]
		k = NewKit()
		vsched.EndSetup()
		pid := actor.NewPID("local", "a/1")
		paniced := false
		beh := func(k *Kit, c *actor.Context, inc int) {
			if p.Yield {
				vsched.Yield()
			}
			if m, ok := c.Message().(int); ok && m == p.CrashMsg && !paniced {
				paniced = true
				panic("boom")
			}
		}
		for t := 0; t < p.Senders; t++ {
			t := t
			vsched.Go("sender", func() {
				for i := 0; i < p.PerT; i++ {
					k.E.Send(pid, t*100+i)
					vsched.Touch("sends")
					sends = append(sends, sent{t*100 + i, vsched.Clock()})
				}
			})
		}
		if p.Stopper > 0 {
			vsched.Go("stopper", func() {
				vsched.Touch("sends")
				stopVC = vsched.Clock() // clock at the start of the stop call
				stopIssued = true
				if p.Stopper == 1 {
					k.E.Poison(pid)
				} else {
					k.E.Stop(pid)
				}
			})
		}
		k.E.Spawn(k.Producer("A", beh), "a", actor.WithID("1"), actor.WithInboxSize(2), actor.WithRestartDelay(0))
		spawnReturned = true
		for _, e := range k.Recv("A") {
			if e.Msg == "Started" {
				startedAtReturn = true
			}
		}
		vsched.Quiesce()
	}
	check := func(r *vsched.Result) []vsched.Violation {
		vs := stdEnd(r)
		if len(vs) > 0 {
			return vs
		}
		vs = append(vs, k.serial()...)
		if spawnReturned && !startedAtReturn {
			vs = append(vs, V("lifecycle/spawn-returned-before-started", "Spawn of a fresh id returned before Started was handled"))
		}
		reg := k.E.Registry.GetPID("a", "1") != nil
		stoppedEffective := !reg
		vs = append(vs, lifecycleShape(k, "A", stoppedEffective)...)
		if p.Stopper == 0 && !reg {
			vs = append(vs, V("registry/unregistered-without-termination", "actor unregistered although nobody stopped it; log: %s", k.LogString()))
		}
		// every send is delivered or dead-lettered, never both; neither only with a stopper and only
		// if the send did not happen-before the stop request
		cnt := map[int]int{}
		for _, e := range userMsgs(k.Recv("A")) {
			cnt[e.Raw.(int)]++
		}
		dl := map[int]int{}
		for _, e := range k.Log {
			if e.Kind == "event" {
				if d, ok := e.Raw.(actor.DeadLetterEvent); ok {
					if id, ok := d.Message.(int); ok {
						dl[id]++
					}
				}
			}
		}
		for _, s := range sends {
			c, d := cnt[s.id], dl[s.id]
			switch {
			case c > 1:
				vs = append(vs, V("duplicate/message-delivered-twice", "%s: message %d delivered %d times; log: %s", p, s.id, c, k.LogString()))
			case c == 1 && d > 0:
				vs = append(vs, V("deadletter/delivered-and-dead-lettered", "%s: message %d both delivered and dead-lettered; log: %s", p, s.id, k.LogString()))
			case d > 1:
				vs = append(vs, V("deadletter/dead-lettered-twice", "%s: message %d dead-lettered %d times", p, s.id, d))
			case c == 0 && d == 0:
				if p.Stopper == 0 || !stopIssued {
					vs = append(vs, V("loss/message-neither-delivered-nor-dead-lettered", "%s: message %d vanished; log: %s", p, s.id, k.LogString()))
				} else if p.Stopper == 1 && s.end.Leq(stopVC) && stoppedEffective {
					// sent before a Poison that took effect: must have been handled (or dead-lettered before registration)
					vs = append(vs, V("poison/message-sent-before-poison-dropped", "%s: message %d was sent before the Poison call but was neither handled nor dead-lettered; log: %s", p, s.id, k.LogString()))
				}
			}
		}
		return vs
	}
	outcome := func() string {
		if k == nil {
			return ""
		}
		return p.String() + ": " + k.LogString()
	}
	return vsched.Instance{Body: body, Check: check, Outcome: outcome}
}

// ------------------------------------------------------------------ C10 one live actor per id

type dupParams struct {
	Spawners int  // threads spawning id "x/1"
	Other    bool // one more thread spawning "x/2"
	Pending  int  // messages sent to the incumbent before the duplicates race
	Child    bool // duplicates are SpawnChild calls inside a parent
}

func (p dupParams) String() string {
	return fmt.Sprintf("sp%doth%vpend%dchild%v", p.Spawners, p.Other, p.Pending, p.Child)
}

func engDuplicate(variants []dupParams) vsched.Instance {
	var k *Kit
	var p dupParams
	var got []*actor.PID // PIDs returned by the racing spawns
	getAfter := map[int]bool{}
	var childGone bool
	var childStopped, childStoppedBefore int
	body := func() {
		p = variants[chooseVariant(len(variants))]
		k = NewKit()
		var first *actor.PID
		if p.Pending > 0 {
			// incumbent whose Started handler blocks nothing; pending messages are sent in setup but
			// the incumbent only handles them after setup
			first = k.E.Spawn(k.Producer("X", nil), "x", actor.WithID("1"), actor.WithInboxSize(1))
		}
		vsched.EndSetup()
		for i := 0; i < p.Pending; i++ {
			k.E.Send(first, i)
		}
		got = make([]*actor.PID, p.Spawners)
		if p.Child {
			k.E.Spawn(k.Producer("P", func(k *Kit, c *actor.Context, inc int) {
				if _, ok := c.Message().(actor.Started); ok {
					for i := 0; i < p.Spawners; i++ {
						got[i] = c.SpawnChild(k.Producer("X", nil), "x", actor.WithID("1"))
					}
				}
			}), "p", actor.WithID("1"))
		} else {
			for i := 0; i < p.Spawners; i++ {
				i := i
				vsched.Go("spawner", func() {
					got[i] = k.E.Spawn(k.Producer("X", nil), "x", actor.WithID("1"))
					getAfter[i] = k.E.Registry.GetPID("x", "1") != nil
				})
			}
		}
		if p.Other {
			vsched.Go("spawner-other", func() {
				k.E.Spawn(k.Producer("Y", nil), "x", actor.WithID("2"))
			})
		}
		vsched.Quiesce()
		if p.Child {
			// the duplicate spawns must have left the incumbent child where it was: still its parent's child,
			// so it goes down with the parent and the whole tree can be spawned again
			childStoppedBefore = len(k.EventsMatching("ActorStopped(local/p/1/x/1)"))
			vsched.Recv(k.E.Poison(actor.NewPID("local", "p/1")).Done())
			vsched.Quiesce()
			childGone = k.E.Registry.GetPID("p/1/x", "1") == nil
			childStopped = len(k.EventsMatching("ActorStopped(local/p/1/x/1)")) - childStoppedBefore
		}
	}
	check := func(r *vsched.Result) []vsched.Violation {
		vs := stdEnd(r)
		if len(vs) > 0 {
			return vs
		}
		vs = append(vs, k.serial()...)
		if p.Child && (!childGone || childStopped != 1) {
			vs = append(vs, V("duplicate-id/incumbent-child-detached-from-parent", "%s: after the duplicate SpawnChild calls the parent was stopped: child unregistered=%v, ActorStoppedEvents for it %d (want true, 1); log: %s", p, childGone, childStopped, k.LogString()))
		}
		total := p.Spawners
		if p.Pending > 0 {
			total++
		}
		if n := k.Incs("X"); n != 1 {
			vs = append(vs, V("duplicate-id/producer-ran-for-more-than-one-spawn", "%s: producer of id x/1 ran %d times for %d spawns; log: %s", p, n, total, k.LogString()))
		}
		wantDup := total - 1
		pidName := "local/x/1"
		if p.Child {
			pidName = "local/p/1/x/1"
		}
		if d := k.EventsMatching("ActorDuplicateId(" + pidName + ")"); len(d) != wantDup {
			vs = append(vs, V("duplicate-id/wrong-number-of-duplicate-events", "%s: %d ActorDuplicateIdEvents, want %d; events %v", p, len(d), wantDup, k.Events()))
		}
		vs = append(vs, lifecycleShape(k, "X", p.Child)...)
		um := userMsgs(k.Recv("X"))
		if len(um) != p.Pending {
			vs = append(vs, V("duplicate-id/incumbent-pending-messages-disturbed", "%s: incumbent handled %d of %d pending messages; log: %s", p, len(um), p.Pending, k.LogString()))
		}
		for i, e := range um {
			if e.Raw.(int) != i || e.Inc != 1 {
				vs = append(vs, V("duplicate-id/incumbent-pending-messages-disturbed", "%s: pending message order/incarnation wrong; log: %s", p, k.LogString()))
				break
			}
		}
		for i, ok := range getAfter {
			if !ok {
				vs = append(vs, V("registry/getpid-nil-after-spawn-returned", "%s: spawner %d: GetPID was nil after its Spawn returned", p, i))
			}
		}
		if !p.Child && k.E.Registry.GetPID("x", "1") == nil {
			vs = append(vs, V("registry/getpid-nil-while-registered", "%s: GetPID(x,1) nil at quiescence", p))
		}
		if p.Other && k.Incs("Y") != 1 {
			vs = append(vs, V("duplicate-id/other-id-affected", "%s: spawn of a different id ran its producer %d times", p, k.Incs("Y")))
		}
		return vs
	}
	outcome := func() string {
		if k == nil {
			return ""
		}
		return p.String() + ": " + k.LogString()
	}
	return vsched.Instance{Body: body, Check: check, Outcome: outcome}
}

// engRespawn (C10, style H): all sequences over {spawn a, spawn b, stop+wait a, poison+wait a,
// send a, getpid a} against a map[id]incarnation reference model; one driver, quiescent steps.
func engRespawn(depth int) vsched.Instance {
	ops := []string{"spawnA", "spawnB", "stopA", "poisonA", "sendA", "getA"}
	var k *Kit
	var seq []string
	var bad []vsched.Violation
	body := func() {
		k = NewKit()
		vsched.EndSetup()
		n := 1 + vsched.Choose(depth)
		aLive := false
		aInc := 0
		sentTo := map[int][]int{} // incarnation -> message ids sent while live
		msg := 0
		for i := 0; i < n; i++ {
			op := ops[vsched.Choose(len(ops))]
			seq = append(seq, op)
			switch op {
			case "spawnA":
				before := k.Incs("A")
				k.E.Spawn(k.Producer("A", nil), "a", actor.WithID("1"))
				if aLive && k.Incs("A") != before {
					bad = append(bad, V("respawn/producer-ran-for-taken-id", "history %v", seq))
				}
				if !aLive {
					if k.Incs("A") != before+1 {
						bad = append(bad, V("respawn/free-id-not-spawned", "history %v: spawn of a free id did not run the producer", seq))
					}
					aLive = true
					aInc = k.Incs("A")
				}
			case "spawnB":
				k.E.Spawn(k.Producer("B", nil), "b", actor.WithID("1"))
			case "stopA", "poisonA":
				pid := actor.NewPID("local", "a/1")
				var done <-chan struct{}
				if op == "stopA" {
					done = k.E.Stop(pid).Done()
				} else {
					done = k.E.Poison(pid).Done()
				}
				vsched.Recv(done)
				if k.E.Registry.GetPID("a", "1") != nil {
					bad = append(bad, V("respawn/registered-after-stop-done", "history %v: GetPID non-nil after the stop context was done", seq))
				}
				aLive = false
			case "sendA":
				msg++
				k.E.Send(actor.NewPID("local", "a/1"), msg)
				if aLive {
					sentTo[aInc] = append(sentTo[aInc], msg)
				}
			case "getA":
				got := k.E.Registry.GetPID("a", "1") != nil
				if got != aLive {
					bad = append(bad, V("respawn/getpid-disagrees-with-model", "history %v: GetPID(a,1) non-nil=%v, model live=%v", seq, got, aLive))
				}
			}
			vsched.Quiesce()
		}
		// deliveries per incarnation == sends while that incarnation was live
		gotBy := map[int][]int{}
		for _, e := range userMsgs(k.Recv("A")) {
			gotBy[e.Inc] = append(gotBy[e.Inc], e.Raw.(int))
		}
		for inc := 1; inc <= k.Incs("A"); inc++ {
			if fmt.Sprint(gotBy[inc]) != fmt.Sprint(sentTo[inc]) {
				bad = append(bad, V("respawn/incarnation-received-wrong-messages", "history %v: incarnation %d received %v, want %v; log: %s", seq, inc, gotBy[inc], sentTo[inc], k.LogString()))
			}
		}
		bad = append(bad, lifecycleShape(k, "A", !aLive)...)
	}
	check := func(r *vsched.Result) []vsched.Violation {
		vs := stdEnd(r)
		if len(vs) > 0 {
			return vs
		}
		vs = append(vs, k.serial()...)
		return append(vs, bad...)
	}
	outcome := func() string { return strings.Join(seq, ",") }
	return vsched.Instance{Body: body, Check: check, Outcome: outcome}
}

// engStopWaitRespawn: stop (or poison) an actor, wait until the stop context is done, spawn the same
// id again at once - while 0-2 other pending stop requests are still being acknowledged. The moment a
// stop is acknowledged the id is free: the respawn must run its producer, publish no duplicate
// event, and own the id from then on.
type swrParams struct {
	Stop   int // 1 Poison, 2 Stop
	Others int // further stop requests issued by other threads beforehand
	Child  bool
	// StopPanics: the receiver panics in its Stopped handler - stopped is stopped, the id is free afterwards.
	StopPanics bool
	// Probe: inside its Stopped handler the receiver asks GetPID for its own id and then tries to spawn that
	// id: GetPID must be non-nil exactly if the spawn is refused (the id is taken exactly while it is registered).
	Probe bool
}

func (p swrParams) String() string {
	return fmt.Sprintf("stop%dothers%dchild%vstoppanics%vprobe%v", p.Stop, p.Others, p.Child, p.StopPanics, p.Probe)
}

func engStopWaitRespawn(variants []swrParams) vsched.Instance {
	var k *Kit
	var p swrParams
	var bad []vsched.Violation
	probeTaken := false
	body := func() {
		bad = nil
		probeTaken = false
		p = variants[chooseVariant(len(variants))]
		k = NewKit()
		var parentCtx *actor.Context
		var pid *actor.PID
		probed := false
		xBehave := func(k *Kit, c *actor.Context, inc int) {
			if _, ok := c.Message().(actor.Stopped); !ok {
				return
			}
			if p.Probe && !probed {
				probed = true
				kind, id := "x", "1"
				if p.Child {
					kind = "p/1/x"
				}
				seen := c.Engine().Registry.GetPID(kind, id) != nil
				n0 := k.Incs("X3")
				if p.Child {
					parentCtx.SpawnChild(k.Producer("X3", nil), "x", actor.WithID("1"))
				} else {
					c.Engine().Spawn(k.Producer("X3", nil), "x", actor.WithID("1"))
				}
				taken := k.Incs("X3") == n0
				probeTaken = taken
				if seen != taken {
					bad = append(bad, V("respawn/getpid-disagrees-with-registry", "%s: inside its Stopped handler the actor saw GetPID non-nil=%v for its own id, a spawn of that id at the same moment was refused=%v; log: %s", p, seen, taken, k.LogString()))
				}
			}
			if p.StopPanics {
				panic("in the Stopped handler")
			}
		}
		spawn := func(name string) *actor.PID {
			var b Behaviour
			if name == "X" {
				b = xBehave
			}
			if p.Child {
				return parentCtx.SpawnChild(k.Producer(name, b), "x", actor.WithID("1"))
			}
			return k.E.Spawn(k.Producer(name, b), "x", actor.WithID("1"))
		}
		if p.Child {
			k.E.Spawn(k.Producer("P", func(k *Kit, c *actor.Context, inc int) {
				switch m := c.Message().(type) {
				case actor.Started:
					parentCtx = c
					pid = spawn("X")
				case string:
					if m == "respawn" {
						spawn("X2")
					}
				}
			}), "p", actor.WithID("1"))
		} else {
			pid = spawn("X")
		}
		vsched.EndSetup()
		// the other requests are ISSUED before ours is acknowledged (issued later they would rightly stop the
		// respawned actor); only the waiting happens on threads of their own
		for i := 0; i < p.Others; i++ {
			octx := k.E.Stop(pid)
			vsched.Go("other-stopper", func() { vsched.Recv(octx.Done()) })
		}
		var done <-chan struct{}
		if p.Stop == 1 {
			done = k.E.Poison(pid).Done()
		} else {
			done = k.E.Stop(pid).Done()
		}
		vsched.Recv(done)
		if p.Probe && !probeTaken {
			return // the probe spawn legitimately took the id over: nothing more to respawn
		}
		if p.Child {
			k.E.Send(actor.NewPID("local", "p/1"), "respawn")
			vsched.Quiesce()
		} else {
			spawn("X2")
		}
		if k.Incs("X2") != 1 {
			bad = append(bad, V("respawn/free-id-not-spawned", "%s: the stop of %s was acknowledged, yet spawning the id again ran the producer %d times; log: %s", p, pid, k.Incs("X2"), k.LogString()))
		}
		k.E.Send(pid, 7)
		vsched.Quiesce()
		got := userMsgs(k.Recv("X2"))
		if k.Incs("X2") == 1 && (len(got) != 1 || got[0].Raw != any(7)) {
			bad = append(bad, V("respawn/message-to-respawned-id-lost", "%s: the respawned actor received %v, want [7]; log: %s", p, got, k.LogString()))
		}
		if k.Incs("X2") == 1 && k.E.Registry.GetPID("p/1/x", "1") == nil && k.E.Registry.GetPID("x", "1") == nil {
			bad = append(bad, V("respawn/getpid-nil-for-live-actor", "%s: GetPID is nil for the respawned actor; log: %s", p, k.LogString()))
		}
	}
	check := func(r *vsched.Result) []vsched.Violation {
		vs := stdEnd(r)
		if len(vs) > 0 {
			return vs
		}
		vs = append(vs, k.serial()...)
		wantDup := 0
		if p.Probe && probeTaken {
			wantDup = 1
		}
		if n := len(k.EventsMatching("ActorDuplicateId")); n != wantDup {
			vs = append(vs, V("respawn/duplicate-event-for-free-id", "%s: %d ActorDuplicateIdEvent although the id was free; log: %s", p, n, k.LogString()))
		}
		return append(vs, bad...)
	}
	return vsched.Instance{Body: body, Check: check, Outcome: func() string { return p.String() + "|" + k.LogString() }}
}

// engSlowChild (C02): a parent is stopped while one of its children is busy with a message for a long
// (virtual) time. Whatever the parent does about a child that takes its time - it may only wait -
// the child's Receive calls must not overlap: its Stopped comes after the message it is busy with.
func engSlowChild(stops []int) vsched.Instance {
	var k *Kit
	stop := 0
	body := func() {
		stop = stops[chooseVariant(len(stops))]
		k = NewKit()
		var child *actor.PID
		parent := k.E.Spawn(k.Producer("P", func(k *Kit, c *actor.Context, inc int) {
			if _, ok := c.Message().(actor.Started); ok {
				child = c.SpawnChild(k.Producer("C", func(k *Kit, c *actor.Context, inc int) {
					if s, ok := c.Message().(string); ok && s == "work" {
						vsched.Sleep(5 * time.Second) // busy: far longer than anybody's patience
						k.Note("C", "work done")
					}
				}), "c", actor.WithID("1"))
			}
		}), "p", actor.WithID("1"))
		vsched.EndSetup()
		k.E.Send(child, "work")
		var done <-chan struct{}
		if stop == 1 {
			done = k.E.Poison(parent).Done()
		} else {
			done = k.E.Stop(parent).Done()
		}
		vsched.Recv(done)
		vsched.Quiesce()
	}
	check := func(r *vsched.Result) []vsched.Violation {
		vs := stdEnd(r)
		if len(vs) > 0 {
			return vs
		}
		vs = append(vs, k.serial()...)
		vs = append(vs, lifecycleShape(k, "C", true)...)
		vs = append(vs, lifecycleShape(k, "P", true)...)
		// the child's Stopped is its last delivery and comes after the work was done
		doneAt, stoppedAt := -1, -1
		for i, e := range k.Log {
			if e.Kind == "note" && e.Actor == "C" {
				doneAt = i
			}
			if e.Kind == "recv" && e.Actor == "C" && e.Msg == "Stopped" && stoppedAt < 0 {
				stoppedAt = i
			}
		}
		if userMsgs(k.Recv("C")) != nil && (doneAt < 0 || stoppedAt < doneAt) {
			vs = append(vs, V("serial/stopped-delivered-while-busy", "stop%d: the child was told Stopped (log position %d) before it had finished the message it was busy with (%d); log: %s", stop, stoppedAt, doneAt, k.LogString()))
		}
		return vs
	}
	return vsched.Instance{Body: body, Check: check, Outcome: func() string { return fmt.Sprint(stop) + k.LogString() }}
}

// ------------------------------------------------------------------ C09 dead letters

type dlParams struct {
	Target  int // 0 nil, 1 never spawned, 2 stopped, 3 foreign address
	Msg     int // 0 int, 1 string, 2 pointer to struct
	Sender  bool
	Subs    int // 0 one monitor, 1 two monitors, 2 monitor + a subscriber that stopped earlier without unsubscribing, 3 monitor + a subscriber that stops without unsubscribing right before the sends, 4 monitor + a subscriber with a foreign address (engine without remote)
	Threads int
	PerT    int
	Op      int  // 0 Send/SendWithSender, 1 Poison, 2 Stop, 3 SendLocal
	Remote  bool // the engine has a remote (its address is not "local"); foreign targets then go to the remote instead of producing an event
	Resub   bool // the monitor is subscribed a second time through another *PID object with the same value (still one subscription)
	Churn   bool // while the sends are under way another thread spawns and poisons an unrelated actor (registry writers racing the failed lookups)
}

func (p dlParams) String() string {
	s := fmt.Sprintf("tgt%dmsg%dsnd%vsubs%dT%dx%dop%drem%v", p.Target, p.Msg, p.Sender, p.Subs, p.Threads, p.PerT, p.Op, p.Remote)
	if p.Churn {
		s += "churn"
	}
	if p.Resub {
		s += "resub"
	}
	return s
}

type dlPayload struct{ N int }

func engDeadLetter(variants []dlParams) vsched.Instance {
	var k *Kit
	var p dlParams
	var mon2 []string
	nsent := 0
	var target, sender *actor.PID
	var msgs []any
	var pool []poolMsg
	ctxNotDone := 0
	addr := "local"
	body := func() {
		p = variants[chooseVariant(len(variants))]
		if p.Remote {
			addr = "10.0.0.1:4000"
			vsched.BeginSetup()
			k = &Kit{inRecv: map[string]bool{}, exitVC: map[string]vsched.VC{}, incs: map[string]int{}}
			e, err := actor.NewEngine(actor.NewEngineConfig().WithRemote(&poolRemoter{addr: addr, pool: &pool}))
			if err != nil {
				panic(err)
			}
			k.E = e
			k.MonPID = e.SpawnFunc(func(c *actor.Context) {
				switch c.Message().(type) {
				case actor.Initialized, actor.Started, actor.Stopped:
					return
				}
				k.add(Ev{Kind: "event", Actor: "mon", Msg: Render(c.Message()), Raw: c.Message()})
			}, "mon", actor.WithID("1"))
			e.Subscribe(k.MonPID)
		} else {
			k = NewKit()
		}
		if p.Resub {
			k.E.Subscribe(actor.NewPID(k.MonPID.Address, k.MonPID.ID))
			vsched.Quiesce()
		}
		var gone *actor.PID
		switch p.Subs {
		case 1:
			m2 := k.E.SpawnFunc(func(c *actor.Context) {
				switch c.Message().(type) {
				case actor.Initialized, actor.Started, actor.Stopped:
					return
				}
				vsched.Touch("log")
				mon2 = append(mon2, Render(c.Message()))
			}, "mon", actor.WithID("2"))
			k.E.Subscribe(m2)
		case 4, 5:
			// a subscriber on another node (5: two of them, on two nodes), on an engine that has no remote
			k.E.Subscribe(actor.NewPID("10.0.0.7:4000", "far-sub/1"))
			if p.Subs == 5 {
				k.E.Subscribe(actor.NewPID("10.0.0.6:4000", "far-sub/2"))
			}
			vsched.Quiesce()
		case 2, 3:
			gone = k.E.SpawnFunc(func(c *actor.Context) {}, "gone", actor.WithID("1"))
			k.E.Subscribe(gone)
			vsched.Quiesce()
			if p.Subs == 2 {
				vsched.Recv(k.E.Poison(gone).Done())
			}
		}
		switch p.Target {
		case 1:
			target = actor.NewPID(addr, "never/1")
		case 2:
			target = k.E.SpawnFunc(func(c *actor.Context) {}, "stopped", actor.WithID("1"))
			vsched.Quiesce()
			vsched.Recv(k.E.Poison(target).Done())
		case 3:
			target = actor.NewPID("10.0.0.9:4000", "far/1")
		}
		if p.Sender {
			sender = actor.NewPID(addr, "snd/1")
		}
		vsched.EndSetup()
		// forget what the setup produced
		k.Log = nil
		mon2 = nil
		if p.Subs == 3 {
			vsched.Recv(k.E.Poison(gone).Done())
		}
		for t := 0; t < p.Threads; t++ {
			t := t
			vsched.Go("sender", func() {
				for i := 0; i < p.PerT; i++ {
					var m any
					switch p.Msg {
					case 0:
						m = t*100 + i
					case 1:
						m = fmt.Sprintf("s%d", t*100+i)
					case 2:
						m = &dlPayload{t*100 + i}
					case 3:
						// the undeliverable message is itself a DeadLetterEvent (a monitor forwarding what it saw to an
						// auditor that is gone): reported like any other message
						m = actor.DeadLetterEvent{Target: actor.NewPID(addr, "elsewhere/1"), Message: t*100 + i}
					}
					vsched.Touch("sends")
					msgs = append(msgs, m)
					nsent++
					switch p.Op {
					case 0:
						if sender != nil {
							k.E.SendWithSender(target, m, sender)
						} else {
							k.E.Send(target, m)
						}
					case 1:
						if k.E.Poison(target).Err() == nil {
							ctxNotDone++
						}
					case 2:
						if k.E.Stop(target).Err() == nil {
							ctxNotDone++
						}
					case 3:
						k.E.SendLocal(target, m, sender)
					}
				}
			})
		}
		if p.Churn {
			vsched.Go("churn", func() {
				cp := k.E.Spawn(k.Producer("Z", nil), "churn", actor.WithID("1"))
				k.E.Poison(cp)
			})
		}
		vsched.Quiesce()
		// the event stream and its subscriptions must have survived: one more undeliverable send
		k.E.Send(actor.NewPID(addr, "probe/1"), 424242)
		vsched.Quiesce()
	}
	check := func(r *vsched.Result) []vsched.Violation {
		var vs []vsched.Violation
		for _, pn := range r.Panics {
			vs = append(vs, V("panic-escaped", "%s: %s", p, firstLine(pn)))
		}
		if r.Diverged {
			sig := "finite/event-feedback-loop"
			return append(vs, V(sig, "%s: %d sends never reached quiescence within %d steps (events keep producing events); tail: %v", p, nsent, r.Steps, tail(k.Events(), 3)))
		}
		if len(vs) > 0 {
			return vs
		}
		if bl := blockedExcept(r); len(bl) > 0 {
			return append(vs, V("blocked/sender-or-engine-thread-blocked", "%s: %v", p, bl))
		}
		want := []string{fmt.Sprintf("DeadLetter(%s/probe/1,m424242,)", addr)}
		if p.Subs == 3 {
			want = append(want, fmt.Sprintf("ActorStopped(%s/gone/1)", addr))
		}
		if p.Churn {
			want = append(want, fmt.Sprintf("ActorInitialized(%s/churn/1)", addr), fmt.Sprintf("ActorStarted(%s/churn/1)", addr), fmt.Sprintf("ActorStopped(%s/churn/1)", addr))
		}
		for _, m := range msgs {
			rm, snd := Render(m), pidStr(sender)
			if p.Op == 1 || p.Op == 2 {
				rm, snd = "poisonPill", ""
			}
			switch {
			case p.Op == 1 || p.Op == 2 || p.Op == 3:
				// a stop request / SendLocal looks the id up in the local registry whatever the address is
				want = append(want, fmt.Sprintf("DeadLetter(%s,%s,%s)", pidStr(target), rm, snd))
			case p.Target == 1 || p.Target == 2:
				want = append(want, fmt.Sprintf("DeadLetter(%s,%s,%s)", pidStr(target), rm, snd))
			case p.Target == 3 && !p.Remote:
				want = append(want, fmt.Sprintf("EngineRemoteMissing(%s,%s,%s)", pidStr(target), rm, snd))
			}
		}
		sort.Strings(want)
		cmp := func(name string, got []string) {
			var mine []string
			for _, g := range got {
				// forwarding an event to the foreign subscriber is itself an undeliverable send and is
				// legitimately reported once; those reports are not about our sends
				if (p.Subs == 4 || p.Subs == 5) && (strings.HasPrefix(g, "EngineRemoteMissing(10.0.0.7:4000/far-sub/1,") || strings.HasPrefix(g, "EngineRemoteMissing(10.0.0.6:4000/far-sub/2,")) {
					continue
				}
				mine = append(mine, g)
			}
			sort.Strings(mine)
			if fmt.Sprint(mine) != fmt.Sprint(want) {
				sig := "events/wrong-events-for-undeliverable-sends"
				if len(mine) > len(want) {
					sig = "events/too-many-events"
				} else if len(mine) < len(want) {
					sig = "events/missing-events"
				}
				vs = append(vs, V(sig, "%s: %s saw %v, want %v", p, name, mine, want))
			}
		}
		cmp("monitor", k.Events())
		if p.Subs == 1 {
			cmp("monitor2", mon2)
		}
		if ctxNotDone > 0 {
			vs = append(vs, V("stop/ctx-not-done-for-unregistered-target", "%s: %d stop requests for an unregistered PID returned a context that was not done", p, ctxNotDone))
		}
		if p.Remote && p.Target == 3 && p.Op == 0 && len(pool) != len(msgs) {
			vs = append(vs, V("remote/foreign-send-not-handed-to-remote", "%s: %d of %d messages reached the remote", p, len(pool), len(msgs)))
		}
		// pointer identity of the message is preserved
		if p.Msg == 2 && p.Op == 0 && (p.Target == 1 || p.Target == 2) {
			for _, e := range k.Log {
				if d, ok := e.Raw.(actor.DeadLetterEvent); ok && e.Kind == "event" {
					found := false
					for _, m := range msgs {
						if d.Message == m {
							found = true
						}
					}
					if !found && pidStr(d.Target) == pidStr(target) {
						vs = append(vs, V("events/message-not-the-original-value", "%s: DeadLetterEvent carries %v", p, d.Message))
					}
				}
			}
		}
		return vs
	}
	outcome := func() string {
		if k == nil {
			return ""
		}
		return p.String() + ": " + strings.Join(k.Events(), " ")
	}
	return vsched.Instance{Body: body, Check: check, Outcome: outcome}
}

func tail(s []string, n int) []string {
	if len(s) > n {
		return s[len(s)-n:]
	}
	return s
}

// ------------------------------------------------------------------ C02/C05: restart with late senders (quiet engine)

type restartLateParams struct {
	Tail  int  // messages queued together with the crashing one (same sender, behind it)
	Late  int  // messages sent by a thread that the crashing Receive starts (they land during the restart)
	Third bool // one more sender, started by the first delivery after the restart
	Delay bool // RestartDelay 10ms (virtual) instead of 0
	Size  int
	Internal bool // the panic value is an *actor.InternalError (the restart path tryRestart treats separately)
}

func (p restartLateParams) String() string {
	return fmt.Sprintf("tail%dlate%dthird%vdelay%vinternal%v", p.Tail, p.Late, p.Third, p.Delay, p.Internal)
}

// engRestartLate: message 0 panics once. Behind it sit Tail messages of the same sender; the
// crashing Receive starts a thread that sends Late more messages (ids 100..) while the actor
// restarts; the first delivery to the new incarnation starts a third sender (id 200). No event
// stream, no monitor: the whole budget goes into worker/sender interleavings.
func engRestartLate(variants []restartLateParams) vsched.Instance {
	var k *Kit
	var p restartLateParams
	sent := map[int]bool{}
	body := func() {
		p = variants[chooseVariant(len(variants))]
		k = NewQuietKit()
		vsched.EndSetup()
		var pid *actor.PID
		crashed, thirdStarted := false, false
		beh := func(k *Kit, c *actor.Context, inc int) {
			vsched.Yield()
			m, ok := c.Message().(int)
			if !ok {
				return
			}
			if m == 0 && !crashed {
				crashed = true
				if p.Late > 0 {
					e := c.Engine()
					vsched.Go("late-sender", func() {
						for i := 0; i < p.Late; i++ {
							sent[100+i] = true
							e.Send(pid, 100+i)
						}
					})
				}
				if p.Internal {
					panic(&actor.InternalError{From: "restart-late", Err: fmt.Errorf("boom")})
				}
				panic("boom")
			}
			if inc >= 2 && p.Third && !thirdStarted {
				thirdStarted = true
				e := c.Engine()
				vsched.Go("third-sender", func() { sent[200] = true; e.Send(pid, 200) })
			}
		}
		opts := []actor.OptFunc{actor.WithID("1"), actor.WithInboxSize(p.Size)}
		if p.Delay {
			opts = append(opts, actor.WithRestartDelay(10*1000*1000))
		} else {
			opts = append(opts, actor.WithRestartDelay(0))
		}
		pid = k.E.Spawn(k.Producer("A", beh), "a", opts...)
		for i := 0; i <= p.Tail; i++ {
			sent[i] = true
			k.E.Send(pid, i)
		}
		vsched.Quiesce()
	}
	check := func(r *vsched.Result) []vsched.Violation {
		vs := stdEnd(r)
		if len(vs) > 0 {
			return vs
		}
		vs = append(vs, k.serial()...)
		vs = append(vs, lifecycleShape(k, "A", false)...)
		cnt := map[int]int{}
		last := map[int]int{}
		for _, e := range userMsgs(k.Recv("A")) {
			id := e.Raw.(int)
			cnt[id]++
			if l, ok := last[id/100]; ok && l > id {
				vs = append(vs, V("order/same-sender-reordered", "%s: %d delivered after %d; log: %s", p, id, l, k.LogString()))
			}
			last[id/100] = id
			if id != 0 && e.Inc != 2 {
				vs = append(vs, V("restart/message-delivered-to-wrong-incarnation", "%s: message %d delivered to incarnation %d; log: %s", p, id, e.Inc, k.LogString()))
			}
		}
		for id := range sent {
			if cnt[id] != 1 {
				sig := "loss/message-not-delivered"
				if cnt[id] > 1 {
					sig = "duplicate/message-delivered-twice"
				}
				vs = append(vs, V(sig, "%s: message %d delivered %d times; log: %s", p, id, cnt[id], k.LogString()))
			}
		}
		if k.Incs("A") != 2 {
			vs = append(vs, V("restart/wrong-number-of-incarnations", "%s: %d incarnations, want 2; log: %s", p, k.Incs("A"), k.LogString()))
		}
		if in := actor.VerifProcInbox(k.E, actor.NewPID("local", "a/1")); in != nil {
			if st, ln := actor.VerifInboxStatus(in), actor.VerifInboxLen(in); st != actor.VerifIdle || ln != 0 {
				vs = append(vs, V("end-state/not-idle-empty", "%s: at quiescence status=%d len=%d", p, st, ln))
			}
		}
		return vs
	}
	outcome := func() string {
		if k == nil {
			return ""
		}
		return p.String() + ": " + k.LogString()
	}
	return vsched.Instance{Body: body, Check: check, Outcome: outcome}
}

// ------------------------------------------------------------------ C10: re-use of an id while its owner shuts down

type respawnParams struct {
	Children int // children of the actor that is being stopped (they stop before it does)
	Stop     int // 1 Poison, 2 Stop
	Probe    bool
}

func (p respawnParams) String() string { return fmt.Sprintf("ch%dstop%dprobe%v", p.Children, p.Stop, p.Probe) }

// engRespawnRace: actor x/1 (with children) is stopped while another thread spawns x/1 again and
// a third one polls GetPID. While any child of the old actor is still alive the old actor has not
// stopped: its id is still taken (no second Producer run, GetPID non-nil).
func engRespawnRace(variants []respawnParams) vsched.Instance {
	var k *Kit
	var p respawnParams
	type obs struct {
		what string
		at   int // log length at the observation
	}
	var observations []obs
	body := func() {
		p = variants[chooseVariant(len(variants))]
		k = NewQuietKit()
		parent := func(k *Kit, c *actor.Context, inc int) {
			if _, ok := c.Message().(actor.Started); ok && inc == 1 {
				for i := 0; i < p.Children; i++ {
					c.SpawnChild(k.Producer(fmt.Sprintf("C%d", i), func(k *Kit, c *actor.Context, inc int) {
						if _, ok := c.Message().(actor.Stopped); ok {
							vsched.Yield() // a child that takes a moment to stop
						}
					}), "c", actor.WithID(fmt.Sprint(i)))
				}
			}
		}
		pid := k.E.Spawn(k.Producer("X", parent), "x", actor.WithID("1"))
		vsched.EndSetup()
		vsched.Go("stopper", func() {
			if p.Stop == 1 {
				k.E.Poison(pid)
			} else {
				k.E.Stop(pid)
			}
		})
		vsched.Go("respawner", func() {
			// a different actor (its own process) that claims the same id: recorded under its own name
			k.E.Spawn(k.Producer("X2", nil), "x", actor.WithID("1"))
			if k.Incs("X2") > 0 {
				vsched.Touch("log")
				observations = append(observations, obs{"respawned", len(k.Log)})
			}
		})
		if p.Probe {
			vsched.Go("prober", func() {
				for i := 0; i < 2; i++ {
					if k.E.Registry.GetPID("x", "1") == nil {
						vsched.Touch("log")
						observations = append(observations, obs{"getpid-nil", len(k.Log)})
					}
				}
			})
		}
		vsched.Quiesce()
	}
	check := func(r *vsched.Result) []vsched.Violation {
		vs := stdEnd(r)
		if len(vs) > 0 {
			return vs
		}
		vs = append(vs, k.serial()...)
		// log position at which the last child of the first incarnation handled Stopped
		lastChildStopped := -1
		stopped := 0
		for i, e := range k.Log {
			if e.Kind == "recv" && e.Msg == "Stopped" && strings.HasPrefix(e.Actor, "C") {
				stopped++
				lastChildStopped = i
			}
		}
		for _, o := range observations {
			if stopped < p.Children || o.at <= lastChildStopped {
				sig := "respawn/id-reused-while-owner-still-has-live-children"
				if o.what == "getpid-nil" {
					sig = "respawn/getpid-nil-while-owner-still-has-live-children"
				}
				vs = append(vs, V(sig, "%s: %s at log position %d, children stopped %d of %d (last at %d); log: %s", p, o.what, o.at, stopped, p.Children, lastChildStopped, k.LogString()))
			}
		}
		// the producer of the second spawn ran at most once, and only if the first actor is gone
		if k.Incs("X") != 1 || k.Incs("X2") > 1 {
			vs = append(vs, V("duplicate-id/producer-ran-for-more-than-one-spawn", "%s: producers ran %d and %d times", p, k.Incs("X"), k.Incs("X2")))
		}
		return vs
	}
	outcome := func() string {
		if k == nil {
			return ""
		}
		s := p.String() + ":"
		for _, o := range observations {
			s += fmt.Sprintf(" %s@%d", o.what, o.at)
		}
		return s + " " + k.LogString()
	}
	return vsched.Instance{Body: body, Check: check, Outcome: outcome}
}

// ------------------------------------------------------------------ C02: a worker that never finds its inbox empty

// engSelfSend: an actor that sends itself the next tick from every tick, plus an outside sender,
// so that one worker keeps finding messages for more iterations than the inbox's throughput
// budget (built with actor.defaultThroughput scaled to 3): whatever the worker does when the
// budget is used up, there is still one Receive at a time, each after the previous one, and
// every message is handled once.
func engSelfSend(ticks, outside int) vsched.Instance {
	var k *Kit
	body := func() {
		k = NewQuietKit()
		vsched.EndSetup()
		var pid *actor.PID
		pid = k.E.Spawn(k.Producer("A", func(k *Kit, c *actor.Context, inc int) {
			vsched.Yield()
			if m, ok := c.Message().(int); ok && m < ticks {
				c.Send(pid, m+1)
			}
		}), "a", actor.WithID("1"), actor.WithInboxSize(2))
		k.E.Send(pid, 1)
		if outside > 0 {
			vsched.Go("sender", func() {
				for i := 0; i < outside; i++ {
					k.E.Send(pid, 1000+i)
				}
			})
		}
		vsched.Quiesce()
	}
	check := func(r *vsched.Result) []vsched.Violation {
		vs := stdEnd(r)
		if len(vs) > 0 {
			return vs
		}
		vs = append(vs, k.serial()...)
		cnt := map[int]int{}
		lastTick := 0
		for _, e := range userMsgs(k.Recv("A")) {
			id := e.Raw.(int)
			cnt[id]++
			if id < 1000 {
				if id != lastTick+1 {
					vs = append(vs, V("order/ticks-out-of-order", "tick %d after %d; log: %s", id, lastTick, k.LogString()))
				}
				lastTick = id
			}
		}
		for i := 1; i <= ticks; i++ {
			if cnt[i] != 1 {
				vs = append(vs, V("loss-or-duplicate/tick", "tick %d handled %d times; log: %s", i, cnt[i], k.LogString()))
			}
		}
		for i := 0; i < outside; i++ {
			if cnt[1000+i] != 1 {
				vs = append(vs, V("loss-or-duplicate/outside-message", "message %d handled %d times; log: %s", 1000+i, cnt[1000+i], k.LogString()))
			}
		}
		if in := actor.VerifProcInbox(k.E, actor.NewPID("local", "a/1")); in != nil {
			if st, ln := actor.VerifInboxStatus(in), actor.VerifInboxLen(in); st != actor.VerifIdle || ln != 0 {
				vs = append(vs, V("end-state/not-idle-empty", "at quiescence status=%d len=%d", st, ln))
			}
		}
		return vs
	}
	outcome := func() string {
		if k == nil {
			return ""
		}
		return k.LogString()
	}
	return vsched.Instance{Body: body, Check: check, Outcome: outcome}
}
