package scen

import (
	"fmt"
	"strings"

	"github.com/anthdm/hollywood/actor"
	"github.com/anthdm/hollywood/zzverif/vsched"
)

// Ev is one observation in the global, hooked log of an engine-level scenario.
type Ev struct {
	Kind   string // recv | prod | event | mw+ | mw- | note
	Actor  string
	Inc    int
	Msg    string
	Sender string
	Raw    any
	VC     vsched.VC
	Thread int
	Now    int64
}

func (e Ev) String() string {
	switch e.Kind {
	case "recv":
		if e.Sender != "" {
			return fmt.Sprintf("%s#%d<%s from %s", e.Actor, e.Inc, e.Msg, e.Sender)
		}
		return fmt.Sprintf("%s#%d<%s", e.Actor, e.Inc, e.Msg)
	case "prod":
		return fmt.Sprintf("%s#%d:produced", e.Actor, e.Inc)
	case "event":
		return "ev:" + e.Msg
	}
	return e.Kind + ":" + e.Actor + ":" + e.Msg
}

// Kit bundles a real engine with recording receivers, a monitor subscribed to the event
// stream, and the hooked global log the oracles read.
type Kit struct {
	E        *actor.Engine
	Log      []Ev
	inRecv   map[string]bool
	exitVC   map[string]vsched.VC
	Overlap  []string
	HBBroken []string
	incs     map[string]int
	MonPID   *actor.PID
	PillSeen []string
}

func pidStr(p *actor.PID) string {
	if p == nil {
		return ""
	}
	return p.Address + "/" + p.ID
}

// Render gives a canonical, value-based rendering of messages and engine events.
func Render(m any) string {
	switch v := m.(type) {
	case actor.Initialized:
		return "Initialized"
	case actor.Started:
		return "Started"
	case actor.Stopped:
		return "Stopped"
	case int:
		return fmt.Sprintf("m%d", v)
	case string:
		return v
	case actor.ActorInitializedEvent:
		return "ActorInitialized(" + pidStr(v.PID) + ")"
	case actor.ActorStartedEvent:
		return "ActorStarted(" + pidStr(v.PID) + ")"
	case actor.ActorStoppedEvent:
		return "ActorStopped(" + pidStr(v.PID) + ")"
	case actor.ActorRestartedEvent:
		return fmt.Sprintf("ActorRestarted(%s,%d)", pidStr(v.PID), v.Restarts)
	case actor.ActorMaxRestartsExceededEvent:
		return "ActorMaxRestartsExceeded(" + pidStr(v.PID) + ")"
	case actor.ActorDuplicateIdEvent:
		return "ActorDuplicateId(" + pidStr(v.PID) + ")"
	case actor.EngineRemoteMissingEvent:
		return fmt.Sprintf("EngineRemoteMissing(%s,%s,%s)", pidStr(v.Target), Render(v.Message), pidStr(v.Sender))
	case actor.RemoteUnreachableEvent:
		return "RemoteUnreachable(" + v.ListenAddr + ")"
	case actor.DeadLetterEvent:
		return fmt.Sprintf("DeadLetter(%s,%s,%s)", pidStr(v.Target), Render(v.Message), pidStr(v.Sender))
	case *actor.PID:
		return "pid:" + pidStr(v)
	case fmt.Stringer:
		return fmt.Sprintf("%T{%s}", m, v.String())
	}
	if actor.VerifIsPoisonPill(m) {
		return "poisonPill"
	}
	return fmt.Sprintf("%T%v", m, m)
}

// NewKit creates the engine and the monitor in deterministic setup mode. The caller spawns
// further fixtures and then calls vsched.EndSetup().
func NewKit() *Kit {
	vsched.BeginSetup()
	k := &Kit{inRecv: map[string]bool{}, exitVC: map[string]vsched.VC{}, incs: map[string]int{}}
	e, err := actor.NewEngine(actor.NewEngineConfig())
	if err != nil {
		panic(err)
	}
	k.E = e
	k.MonPID = e.SpawnFunc(func(c *actor.Context) {
		switch c.Message().(type) {
		case actor.Initialized, actor.Started, actor.Stopped:
			return
		}
		k.add(Ev{Kind: "event", Actor: "mon", Msg: Render(c.Message()), Raw: c.Message()})
	}, "mon", actor.WithID("1"))
	e.Subscribe(k.MonPID)
	return k
}

// NewQuietKit is NewKit without monitor and with the event stream detached (see
// actor.VerifMuteEvents): for scenarios whose oracle does not read events.
func NewQuietKit() *Kit {
	vsched.BeginSetup()
	k := &Kit{inRecv: map[string]bool{}, exitVC: map[string]vsched.VC{}, incs: map[string]int{}}
	e, err := actor.NewEngine(actor.NewEngineConfig())
	if err != nil {
		panic(err)
	}
	k.E = e
	vsched.Quiesce()
	actor.VerifMuteEvents(e)
	return k
}

func (k *Kit) add(e Ev) {
	e.VC = vsched.Clock()
	e.Thread = vsched.Self()
	e.Now = vsched.VNow()
	vsched.Touch("log")
	k.Log = append(k.Log, e)
}

// Note appends a harness note (e.g. "poison returned") to the hooked log.
func (k *Kit) Note(actorName, msg string) { k.add(Ev{Kind: "note", Actor: actorName, Msg: msg}) }

// Behaviour is what a recording receiver does after logging a delivery.
type Behaviour func(k *Kit, c *actor.Context, inc int)

// Producer returns a counting producer of recording receivers named name.
func (k *Kit) Producer(name string, b Behaviour) actor.Producer {
	return func() actor.Receiver {
		k.incs[name]++
		inc := k.incs[name]
		k.add(Ev{Kind: "prod", Actor: name, Inc: inc})
		return &recReceiver{k: k, name: name, inc: inc, b: b}
	}
}

type recReceiver struct {
	k    *Kit
	name string
	inc  int
	b    Behaviour
}

func (r *recReceiver) Receive(c *actor.Context) {
	k := r.k
	if k.inRecv[r.name] {
		k.Overlap = append(k.Overlap, r.name)
	}
	k.inRecv[r.name] = true
	vc := vsched.Clock()
	if prev := k.exitVC[r.name]; prev != nil && !prev.Leq(vc) {
		k.HBBroken = append(k.HBBroken, fmt.Sprintf("%s#%d<%s", r.name, r.inc, Render(c.Message())))
	}
	if actor.VerifIsPoisonPill(c.Message()) {
		k.PillSeen = append(k.PillSeen, r.name)
	}
	k.add(Ev{Kind: "recv", Actor: r.name, Inc: r.inc, Msg: Render(c.Message()), Sender: pidStr(c.Sender()), Raw: c.Message()})
	defer func() {
		k.exitVC[r.name] = vsched.Clock()
		k.inRecv[r.name] = false
	}()
	if r.b != nil {
		r.b(k, c, r.inc)
	}
}

// Incs returns how often the producer of name ran.
func (k *Kit) Incs(name string) int { return k.incs[name] }

// Recv returns the deliveries to actor name (all incarnations), in log order.
func (k *Kit) Recv(name string) []Ev {
	var out []Ev
	for _, e := range k.Log {
		if e.Kind == "recv" && e.Actor == name {
			out = append(out, e)
		}
	}
	return out
}

// Events returns the rendered events the monitor received, in order.
func (k *Kit) Events() []string {
	var out []string
	for _, e := range k.Log {
		if e.Kind == "event" {
			out = append(out, e.Msg)
		}
	}
	return out
}

// EventsMatching returns monitor events with the given prefix.
func (k *Kit) EventsMatching(prefix string) []string {
	var out []string
	for _, s := range k.Events() {
		if strings.HasPrefix(s, prefix) {
			out = append(out, s)
		}
	}
	return out
}

func (k *Kit) LogString() string {
	parts := make([]string, 0, len(k.Log))
	for _, e := range k.Log {
		if e.Kind == "event" && (strings.HasPrefix(e.Msg, "ActorInitialized") || strings.HasPrefix(e.Msg, "ActorStarted(")) {
			continue
		}
		parts = append(parts, e.String())
	}
	return strings.Join(parts, " ")
}

// serial checks the C02 conditions recorded by the receivers.
func (k *Kit) serial() []vsched.Violation {
	var vs []vsched.Violation
	if len(k.Overlap) > 0 {
		vs = append(vs, V("serial/overlapping-receive", "Receive of %v entered while another Receive of the same actor was running; log: %s", k.Overlap, k.LogString()))
	}
	if len(k.HBBroken) > 0 {
		vs = append(vs, V("serial/receive-not-ordered-after-previous", "deliveries %v did not happen-after the previous Receive of the same actor; log: %s", k.HBBroken, k.LogString()))
	}
	if len(k.PillSeen) > 0 {
		vs = append(vs, V("pill-visible/receive-saw-poison-pill", "actors %v received the engine-private pill", k.PillSeen))
	}
	return vs
}
