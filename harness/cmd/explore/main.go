// explore is the worker binary: it lists the jobs of a property, runs one job (an
// exhaustive deviation-bounded exploration of one closed scenario) and replays witnesses.
package main

import (
	"encoding/json"
	"flag"
	"fmt"
	"io"
	"log/slog"
	"os"
	"runtime"
	"runtime/pprof"
	"sort"
	"strings"
	"time"

	"verifharness/scen"

	"github.com/anthdm/hollywood/zzverif/vsched"
)

type jobInfo struct {
	Name   string `json:"name"`
	Prop   string `json:"prop"`
	Family string `json:"family"`
	Bound  int    `json:"bound"`
	Budget int    `json:"budget"`
	Desc   string `json:"desc"`
	Kind   string `json:"kind"`
}

type witnessOut struct {
	Signature string   `json:"signature"`
	Detail    string   `json:"detail"`
	Choices   []int    `json:"choices"`
	Sigs      []uint64 `json:"sigs"`
	Bound     int      `json:"bound"`
	Count     int64    `json:"count"`
	Stable    bool     `json:"stable"`
	Trace     []string `json:"trace,omitempty"`
}

type runOut struct {
	Job        string              `json:"job"`
	Prop       string              `json:"prop"`
	Family     string              `json:"family"`
	Desc       string              `json:"desc"`
	Tier       string              `json:"tier"`
	Bounds     []vsched.BoundStats `json:"bounds"`
	Executions int64               `json:"executions"`
	Steps      int64               `json:"steps"`
	States     int64               `json:"states"`
	Outcomes   int                 `json:"outcomes"`
	Nontrivial int                 `json:"nontrivial"`
	OutcomeSample []string         `json:"outcome_sample"`
	Witnesses  []witnessOut        `json:"witnesses"`
	Samples    []string            `json:"samples"`
	InfraErr   string              `json:"infra_err"`
	Complete   bool                `json:"complete"`
	BoundDone  int                 `json:"bound_done"`
	Saturated  bool                `json:"saturated"`
	WallS      float64             `json:"wall_s"`
	Kind       string              `json:"kind"`
	Note       string              `json:"note,omitempty"`
	AllOutcomes []string           `json:"all_outcomes,omitempty"`
}

func findJob(name string) *scen.Job {
	for _, j := range scen.Jobs {
		if j.Name == name {
			return j
		}
	}
	return nil
}

func main() {
	slog.SetDefault(slog.New(slog.NewTextHandler(io.Discard, &slog.HandlerOptions{Level: slog.Level(100)})))
	if len(os.Args) < 2 {
		fmt.Fprintln(os.Stderr, "usage: explore jobs|run|replay ...")
		os.Exit(2)
	}
	switch os.Args[1] {
	case "jobs":
		fs := flag.NewFlagSet("jobs", flag.ExitOnError)
		prop := fs.String("prop", "", "property id")
		tier := fs.String("tier", "quick", "quick|thorough")
		fs.Parse(os.Args[2:])
		var out []jobInfo
		for _, j := range scen.Jobs {
			if j.Prop != *prop {
				continue
			}
			if *tier == "quick" && j.Tier != "quick" {
				continue
			}
			b, bud := j.Bound, j.Budget
			if *tier == "thorough" {
				b, bud = j.BoundT, j.BudgetT
			}
			k := j.Kind
			if k == "" {
				k = "sched"
			}
			out = append(out, jobInfo{Name: j.Name, Prop: j.Prop, Family: j.Family, Bound: b, Budget: bud, Desc: j.Desc, Kind: k})
		}
		json.NewEncoder(os.Stdout).Encode(out)
	case "run":
		fs := flag.NewFlagSet("run", flag.ExitOnError)
		name := fs.String("job", "", "job name")
		tier := fs.String("tier", "quick", "quick|thorough")
		outf := fs.String("out", "", "report file")
		bound := fs.Int("bound", -1, "override deviation bound")
		budget := fs.Int("budget", -1, "override budget (s)")
		cpuprof := fs.String("cpuprofile", "", "write a CPU profile")
		fs.Parse(os.Args[2:])
		if *cpuprof != "" {
			f, _ := os.Create(*cpuprof)
			pprof.StartCPUProfile(f)
			defer pprof.StopCPUProfile()
		}
		j := findJob(*name)
		if j == nil {
			fmt.Fprintln(os.Stderr, "unknown job", *name)
			os.Exit(2)
		}
		runtime.GOMAXPROCS(1)
		ro := runJob(j, *tier, *bound, *budget)
		b, _ := json.MarshalIndent(ro, "", " ")
		if *outf != "" {
			os.WriteFile(*outf, b, 0o644)
		} else {
			os.Stdout.Write(b)
			fmt.Println()
		}
		if ro.InfraErr != "" {
			pprof.StopCPUProfile()
			os.Exit(2)
		}
	case "replay":
		fs := flag.NewFlagSet("replay", flag.ExitOnError)
		file := fs.String("file", "", "replay file")
		fs.Parse(os.Args[2:])
		os.Exit(replayFile(*file))
	default:
		fmt.Fprintln(os.Stderr, "unknown subcommand")
		os.Exit(2)
	}
}

func runJob(j *scen.Job, tier string, boundOv, budgetOv int) *runOut {
	start := time.Now()
	b, bud := j.Bound, j.Budget
	if tier == "thorough" {
		b, bud = j.BoundT, j.BudgetT
	}
	if boundOv >= 0 {
		b = boundOv
	}
	if budgetOv >= 0 {
		bud = budgetOv
	}
	ro := &runOut{Job: j.Name, Prop: j.Prop, Family: j.Family, Desc: j.Desc, Tier: tier, Kind: "sched"}
	if j.Kind == "direct" {
		ro.Kind = "direct"
		dr := j.Run(tier, bud)
		ro.Executions = dr.Evaluations
		ro.States = dr.States
		ro.Steps = dr.Transitions
		ro.Outcomes = len(dr.Outcomes)
		ro.Nontrivial = len(dr.Outcomes)
		ro.Samples = dr.Samples
		ro.Complete = dr.Exhaustive
		ro.Saturated = dr.Exhaustive
		ro.Note = dr.Note
		ks := make([]string, 0, len(dr.Outcomes))
		for k := range dr.Outcomes {
			ks = append(ks, k)
		}
		sort.Strings(ks)
		if len(ks) > 6 {
			ks = ks[:6]
		}
		ro.OutcomeSample = ks
		for _, w := range dr.Witnesses {
			ro.Witnesses = append(ro.Witnesses, witnessOut{Signature: w.Signature, Detail: w.Detail, Count: w.Count, Stable: true})
		}
		sort.Slice(ro.Witnesses, func(a, b int) bool { return ro.Witnesses[a].Signature < ro.Witnesses[b].Signature })
		ro.WallS = time.Since(start).Seconds()
		return ro
	}
	vsched.MapOrderChoices = !j.NoMapOrd
	scen.CurShard, scen.NShards = j.Shard, j.Shards
	cfg := vsched.Config{MaxBound: b, Horizon: j.Horizon, Deadline: start.Add(time.Duration(bud) * time.Second)}
	rep := vsched.Explore(cfg, j.Make)
	ro.Bounds = rep.Bounds
	ro.Executions, ro.Steps, ro.States = rep.Executions, rep.Steps, rep.States
	ro.Outcomes, ro.Nontrivial = len(rep.Outcomes), len(rep.Nontrivial)
	ro.InfraErr = rep.InfraErr
	ks := make([]string, 0, len(rep.Outcomes))
	for k := range rep.Outcomes {
		ks = append(ks, k)
	}
	sort.Strings(ks)
	if len(ks) > 6 {
		ks = ks[:6]
	}
	if j.DumpOutcomes {
		ro.AllOutcomes = sortedOutcomes(rep.Outcomes)
	}
	ro.OutcomeSample = ks
	ro.BoundDone = -1
	ro.Complete = true
	for _, bs := range rep.Bounds {
		if bs.Complete {
			ro.BoundDone = bs.Bound
			ro.Saturated = bs.Saturated
		} else {
			ro.Complete = false
		}
	}
	for _, c := range rep.SampleChoices {
		ro.Samples = append(ro.Samples, fmt.Sprint(c))
	}
	// validate every witness: replay three times, identical signatures required
	sigs := make([]string, 0, len(rep.Witnesses))
	for s := range rep.Witnesses {
		sigs = append(sigs, s)
	}
	sort.Strings(sigs)
	for _, s := range sigs {
		w := rep.Witnesses[s]
		wo := witnessOut{Signature: w.Signature, Detail: w.Detail, Choices: w.Choices, Sigs: w.Sigs, Bound: w.Bound, Count: w.Count, Stable: true}
		for k := 0; k < 3; k++ {
			r, vs := vsched.Replay(w.Choices, w.Sigs, j.Horizon, j.Make())
			if r.ReplayErr != "" {
				ro.InfraErr = r.ReplayErr
				wo.Stable = false
				break
			}
			found := false
			for _, v := range vs {
				if v.Signature == w.Signature {
					found = true
				}
			}
			if !found {
				wo.Stable = false
				ro.InfraErr = "NONDETERMINISM: witness for " + w.Signature + " did not reproduce on replay"
			}
			if k == 0 {
				tr := r.Trace
				if len(tr) > 400 {
					tr = tr[len(tr)-400:]
				}
				wo.Trace = tr
			}
		}
		ro.Witnesses = append(ro.Witnesses, wo)
	}
	ro.WallS = time.Since(start).Seconds()
	return ro
}

type replayDoc struct {
	Property  string   `json:"property"`
	Job       string   `json:"job"`
	Signature string   `json:"signature"`
	Detail    string   `json:"detail"`
	Choices   []int    `json:"choices"`
	Sigs      []uint64 `json:"sigs"`
}

func replayFile(file string) int {
	b, err := os.ReadFile(file)
	if err != nil {
		fmt.Fprintln(os.Stderr, err)
		return 2
	}
	var d replayDoc
	if err := json.Unmarshal(b, &d); err != nil {
		fmt.Fprintln(os.Stderr, err)
		return 2
	}
	j := findJob(d.Job)
	if j == nil {
		fmt.Fprintln(os.Stderr, "unknown job", d.Job)
		return 2
	}
	if j.Kind == "direct" {
		fmt.Println("direct job: re-run the job to reproduce:", d.Job, "-", d.Detail)
		return 0
	}
	runtime.GOMAXPROCS(1)
	vsched.MapOrderChoices = !j.NoMapOrd
	scen.CurShard, scen.NShards = j.Shard, j.Shards
	r, vs := vsched.Replay(d.Choices, d.Sigs, j.Horizon, j.Make())
	if r.ReplayErr != "" {
		fmt.Println(r.ReplayErr)
		return 2
	}
	fmt.Println(strings.Join(r.Trace, "\n"))
	if os.Getenv("VERIF_POINTS") != "" {
		for i, pt := range r.Points {
			fmt.Printf("point %d: n=%d chosen=%d costmask=%b before=%d  [%s]\n", i, pt.N, pt.Chosen, pt.Cost, pt.CostBefore, pt.Desc)
		}
	}
	for _, p := range r.Panics {
		fmt.Println("PANIC:", p)
	}
	hit := false
	for _, v := range vs {
		fmt.Printf("violation %s: %s\n", v.Signature, v.Detail)
		if v.Signature == d.Signature {
			hit = true
		}
	}
	if hit {
		fmt.Printf("VIOLATION property=%s replay=%s\n", d.Property, file)
		return 1
	}
	fmt.Println("recorded violation did not reproduce")
	return 0
}

func sortedOutcomes(m map[string]int64) []string {
	ks := make([]string, 0, len(m))
	for k := range m {
		ks = append(ks, k)
	}
	sort.Strings(ks)
	return ks
}
