// conf is the conformance leg of C17: it runs the same driver operations as the controlled leg
// (harness/scen/remote17.go) on the UNINSTRUMENTED repository code over real loopback TCP and
// real drpc, and prints one canonical observation record per scenario variant. The check
// driver requires every record to be one of the records the controlled leg produced for that
// variant. It also decides the Start/Stop clause of C17 on the real listener.
//
// No sleeps are used as oracles: ordering points are barriers (expected counts signalled
// through condition variables); the only real-time waits are the writer's own dial back-off
// and generous (60 s) hang detectors.
package main

import (
	"crypto/ecdsa"
	"crypto/elliptic"
	"crypto/rand"
	"crypto/tls"
	"crypto/x509"
	"encoding/json"
	"math/big"
	"fmt"
	"io"
	"log/slog"
	"net"
	"os"
	"reflect"
	"strings"
	"sync"
	"time"
	"unsafe"

	"verifharness/rparams"

	"github.com/anthdm/hollywood/actor"
	"github.com/anthdm/hollywood/remote"
)

const hang = 60 * time.Second

type out struct {
	Kind    string `json:"kind"` // "record" | "lifecycle"
	Variant string `json:"variant,omitempty"`
	Record  string `json:"record,omitempty"`
	Seq     string `json:"seq,omitempty"`
	OK      bool   `json:"ok"`
	Detail  string `json:"detail,omitempty"`
}

var (
	portMu   sync.Mutex
	nextPort = 21000
)

// freeAddr hands out every port at most once per process (the kernel may otherwise return the
// same ephemeral port to two concurrent scenarios) and skips ports that are in use.
func freeAddr() string {
	portMu.Lock()
	defer portMu.Unlock()
	for {
		nextPort++
		if nextPort > 60000 {
			panic("out of ports")
		}
		addr := fmt.Sprintf("127.0.0.1:%d", nextPort)
		l, err := net.Listen("tcp", addr)
		if err != nil {
			continue
		}
		l.Close()
		return addr
	}
}

type obs struct {
	mu          sync.Mutex
	cond        *sync.Cond
	deliveries  []rparams.Delivery
	kept        []*remote.TestMessage // the delivered message objects, in the order of deliveries: they belong to the receiver and must not change afterwards
	dead        []string
	unreachable int
}

func newObs() *obs { o := &obs{}; o.cond = sync.NewCond(&o.mu); return o }

// wait blocks until pred holds (checked under the lock) or the hang detector fires.
func (o *obs) wait(pred func() bool) bool {
	deadline := time.Now().Add(hang)
	timer := time.AfterFunc(hang, func() { o.mu.Lock(); o.cond.Broadcast(); o.mu.Unlock() })
	defer timer.Stop()
	o.mu.Lock()
	defer o.mu.Unlock()
	for !pred() {
		if time.Now().After(deadline) {
			return false
		}
		o.cond.Wait()
	}
	return true
}

// deadOutbound recognises a dead-lettered outbound message (the router's unexported
// *remote.streamDeliver wrapper) and returns the id carried by the wrapped TestMessage.
func deadOutbound(v any) (string, bool) {
	rv := reflect.ValueOf(v)
	if rv.Kind() != reflect.Ptr || rv.IsNil() || rv.Elem().Kind() != reflect.Struct || rv.Elem().Type().Name() != "streamDeliver" {
		return "", false
	}
	f := rv.Elem().FieldByName("msg")
	if !f.IsValid() {
		return "", false
	}
	inner := reflect.NewAt(f.Type(), unsafe.Pointer(f.UnsafeAddr())).Elem().Interface()
	if m, ok := inner.(*remote.TestMessage); ok {
		return string(m.Data), true
	}
	return "", false
}

func tm(id string) *remote.TestMessage { return &remote.TestMessage{Data: []byte(id)} }

func runVariant(p rparams.Params) out {
	addrA, addrB, addrC := freeAddr(), freeAddr(), freeAddr()
	norm := func(pid *actor.PID) string {
		if pid == nil {
			return ""
		}
		a := pid.Address
		switch a {
		case addrA:
			a = "10.0.0.1:4000"
		case addrB:
			a = "10.0.0.2:4000"
		case addrC:
			a = "10.0.0.3:4000"
		}
		return a + "/" + pid.ID
	}
	o := newObs()
	rcfg := remote.NewConfig()
	if p.TLS {
		rcfg = rcfg.WithTLS(selfSignedTLS())
	}
	ra := remote.New(addrA, rcfg)
	ea, err := actor.NewEngine(actor.NewEngineConfig().WithRemote(ra))
	if err != nil {
		return out{Kind: "record", Variant: p.String(), Detail: "engine A: " + err.Error()}
	}
	mon := ea.SpawnFunc(func(c *actor.Context) {
		switch ev := c.Message().(type) {
		case actor.DeadLetterEvent:
			if id, ok := deadOutbound(ev.Message); ok {
				o.mu.Lock()
				o.dead = append(o.dead, id)
				o.cond.Broadcast()
				o.mu.Unlock()
			}
		case actor.RemoteUnreachableEvent:
			o.mu.Lock()
			o.unreachable++
			o.cond.Broadcast()
			o.mu.Unlock()
		}
	}, "mon", actor.WithID("1"))
	ea.Subscribe(mon)
	// make sure the subscription is in place before anything can be published: a marker event
	subOK := make(chan struct{}, 1)
	probe := ea.SpawnFunc(func(c *actor.Context) {
		if _, ok := c.Message().(string); ok {
			select {
			case subOK <- struct{}{}:
			default:
			}
		}
	}, "probe", actor.WithID("1"))
	ea.Subscribe(probe)
	ea.BroadcastEvent("marker")
	select {
	case <-subOK:
	case <-time.After(hang):
		return out{Kind: "record", Variant: p.String(), Detail: "event stream of A does not answer"}
	}

	var eb *actor.Engine
	var rb, rc *remote.Remote
	startPeer := func(addr, prefix string) (*actor.Engine, *remote.Remote, error) {
		r := remote.New(addr, rcfg)
		e, err := actor.NewEngine(actor.NewEngineConfig().WithRemote(r))
		if err != nil {
			return nil, nil, err
		}
		for i := 1; i <= 2; i++ {
			name := fmt.Sprintf("%st%d", prefix, i)
			e.SpawnFunc(func(c *actor.Context) {
				m, ok := c.Message().(*remote.TestMessage)
				if !ok {
					return
				}
				id := string(m.Data)
				if strings.HasPrefix(id, "req") {
					c.Respond(tm("re:" + id))
					return
				}
				o.mu.Lock()
				o.deliveries = append(o.deliveries, rparams.Delivery{Actor: name, ID: id, Sender: norm(c.Sender())})
				o.kept = append(o.kept, m)
				o.cond.Broadcast()
				o.mu.Unlock()
			}, "t", actor.WithID(fmt.Sprint(i)))
		}
		return e, r, nil
	}
	startB := func() error {
		var err error
		eb, rb, err = startPeer(addrB, "")
		return err
	}
	if p.Peers == 2 {
		var err error
		if _, rc, err = startPeer(addrC, "c."); err != nil {
			return out{Kind: "record", Variant: p.String(), Detail: "engine C: " + err.Error()}
		}
	}
	if !p.Down() {
		if err := startB(); err != nil {
			return out{Kind: "record", Variant: p.String(), Detail: "engine B: " + err.Error()}
		}
	}
	defer func() {
		ra.Stop().Wait()
		if rb != nil {
			rb.Stop().Wait()
		}
		if rc != nil {
			rc.Stop().Wait()
		}
	}()

	nEarly := 0
	var wg sync.WaitGroup
	for t := 0; t < p.Senders; t++ {
		t := t
		nEarly += p.PerT
		wg.Add(1)
		go func() {
			defer wg.Done()
			for i := 0; i < p.PerT; i++ {
				id := fmt.Sprintf("%d.%d", t, i)
				tgt := actor.NewPID(addrB, fmt.Sprintf("t/%d", 1+(t+i)%p.Targets))
				if p.Peers == 2 && i%2 == 1 {
					tgt = actor.NewPID(addrC, "t/1")
				}
				if p.WithSender && i%2 == 1 {
					snd := actor.NewPID(addrA, fmt.Sprintf("x/%d", t))
					if p.SelfSender {
						snd = actor.NewPID(tgt.Address, tgt.ID)
					}
					if p.SameID {
						snd = actor.NewPID(addrA, "worker/1")
					}
					ea.SendWithSender(tgt, tm(id), snd)
				} else if p.WithSender && p.SameID {
					ea.SendWithSender(tgt, tm(id), actor.NewPID("10.0.0.9:4000", "worker/1"))
				} else {
					ea.Send(tgt, tm(id))
				}
			}
		}()
	}
	if p.Actor {
		nEarly += 2
		s := ea.SpawnFunc(func(c *actor.Context) {
			if m, ok := c.Message().(string); ok && m == "go" {
				for i := 0; i < 2; i++ {
					c.Send(actor.NewPID(addrB, "t/1"), tm(fmt.Sprintf("a%d", i)))
				}
			}
		}, "s", actor.WithID("1"))
		ea.Send(s, "go")
	}
	req := ""
	if p.Request {
		wg.Add(1)
		go func() {
			defer wg.Done()
			res, err := ea.Request(actor.NewPID(addrB, "t/1"), tm("req1"), 30*time.Second).Result()
			if m, ok := res.(*remote.TestMessage); ok && err == nil {
				req = string(m.Data)
			} else {
				req = "error"
			}
		}()
	}
	wg.Wait()
	fail := func(what string) out {
		o.mu.Lock()
		defer o.mu.Unlock()
		return out{Kind: "record", Variant: p.String(), Detail: fmt.Sprintf("hang detector: %s (deliveries %v dead %v unreachable %d)", what, o.deliveries, o.dead, o.unreachable)}
	}
	if !p.Down() {
		if !o.wait(func() bool { return len(o.deliveries) >= nEarly }) {
			return fail("early messages not delivered")
		}
		if p.Restart {
			// the peer goes away: A notices the lost connection; then a new node comes up on the address
			rb.Stop().Wait()
			if !o.wait(func() bool { return o.unreachable >= 1 }) {
				return fail("the lost connection was never reported")
			}
			if err := startB(); err != nil {
				return out{Kind: "record", Variant: p.String(), Detail: "engine B (second incarnation): " + err.Error()}
			}
			for i := 0; i < p.Late; i++ {
				id := fmt.Sprintf("late%d", i)
				ea.Send(actor.NewPID(addrB, "t/1"), tm(id))
				if !o.wait(func() bool {
					for _, d := range o.deliveries {
						if d.ID == id {
							return true
						}
					}
					return false
				}) {
					return fail("a message sent after the peer came back was not delivered")
				}
			}
		}
	} else {
		// the whole first connection attempt fails: one unreachable event, every early message dead-lettered
		if !o.wait(func() bool { return o.unreachable >= 1 && len(o.dead) >= nEarly }) {
			return fail("first unreachable episode did not settle")
		}
		attempts := p.FailDials / 3
		for i := 0; i < p.Late; i++ {
			id := fmt.Sprintf("late%d", i)
			if i < attempts-1 {
				// the peer is still down: this send makes a fresh attempt that fails as well
				ea.Send(actor.NewPID(addrB, "t/1"), tm(id))
				want := i + 2
				if !o.wait(func() bool { return o.unreachable >= want && len(o.dead) >= nEarly+i+1 }) {
					return fail("later unreachable episode did not settle")
				}
				continue
			}
			if eb == nil {
				if err := startB(); err != nil {
					return out{Kind: "record", Variant: p.String(), Detail: "engine B: " + err.Error()}
				}
			}
			ea.Send(actor.NewPID(addrB, "t/1"), tm(id))
			got := func() bool {
				for _, d := range o.deliveries {
					if d.ID == id {
						return true
					}
				}
				return false
			}
			if !o.wait(got) {
				return fail("late message not delivered after the peer came up")
			}
		}
	}
	o.mu.Lock()
	for i, m := range o.kept {
		if now := string(m.Data); now != o.deliveries[i].ID {
			defer o.mu.Unlock()
			return out{Kind: "record", Variant: p.String(), Detail: fmt.Sprintf("message %q delivered to %s reads %q now: a delivered message was overwritten by a later one", o.deliveries[i].ID, o.deliveries[i].Actor, now)}
		}
	}
	rec := rparams.Record(p, o.deliveries, o.dead, o.unreachable, req)
	o.mu.Unlock()
	return out{Kind: "record", Variant: p.String(), Record: rec, OK: true}
}

// ---------------------------------------------------------------- Start / Stop on the real listener

func dialOK(addr string) bool {
	c, err := net.DialTimeout("tcp", addr, 5*time.Second)
	if err != nil {
		return false
	}
	c.Close()
	return true
}

func runLifecycle(seq string) out {
	addr := freeAddr()
	r := remote.New(addr, remote.NewConfig())
	e, err := actor.NewEngine(actor.NewEngineConfig())
	if err != nil {
		return out{Kind: "lifecycle", Seq: seq, Detail: err.Error()}
	}
	state := "init"
	settled := true // false right after a Stop that was not waited for
	res := out{Kind: "lifecycle", Seq: seq, OK: true}
	bad := func(f string, a ...any) {
		if res.OK {
			res.OK = false
			res.Detail = fmt.Sprintf("after %q: ", seq) + fmt.Sprintf(f, a...)
		}
	}
	for i := 0; i < len(seq) && res.OK; i++ {
		step := seq[:i+1]
		_ = step
		switch seq[i] {
		case 'S':
			done := make(chan error, 1)
			se := e
			if state != "init" {
				// a further Start is attempted with ANOTHER engine (a reused Remote / EngineConfig): it must be refused
				// and must leave the remote serving the first one
				se, _ = actor.NewEngine(actor.NewEngineConfig())
			}
			go func() { done <- r.Start(se) }()
			select {
			case err := <-done:
				if state == "init" {
					if err != nil {
						bad("first Start returned %v", err)
					}
					state = "running"
				} else if err == nil {
					bad("Start in state %s returned nil, want an error", state)
				}
			case <-time.After(hang):
				bad("Start blocks")
			}
		case 'T', 'W':
			done := make(chan *sync.WaitGroup, 1)
			go func() { done <- r.Stop() }()
			var wg *sync.WaitGroup
			select {
			case wg = <-done:
			case <-time.After(hang):
				bad("Stop blocks")
			}
			if wg == nil && res.OK {
				bad("Stop returned a nil WaitGroup")
			}
			wasRunning := state == "running"
			if wasRunning {
				state = "stopped"
				settled = false
			}
			if seq[i] == 'W' && wg != nil {
				w := make(chan struct{})
				go func() { wg.Wait(); close(w) }()
				select {
				case <-w:
					if wasRunning {
						settled = true
					}
				case <-time.After(hang):
					bad("Stop().Wait() blocks")
				}
			}
		case 'P':
			ok := dialOK(addr)
			switch {
			case state == "running" && !ok:
				bad("a started remote refuses connections")
			case state == "init" && ok:
				bad("a remote that was never started accepts connections")
			case state == "stopped" && settled && ok:
				bad("the remote still accepts inbound connections after Stop().Wait()")
			}
		}
	}
	if state == "running" && res.OK {
		// the remote still serves the engine it was started with: a message from a second node arrives
		got := make(chan struct{}, 1)
		e.SpawnFunc(func(c *actor.Context) {
			if _, ok := c.Message().(*remote.TestMessage); ok {
				select {
				case got <- struct{}{}:
				default:
				}
			}
		}, "t", actor.WithID("1"))
		r2 := remote.New(freeAddr(), remote.NewConfig())
		e2, err := actor.NewEngine(actor.NewEngineConfig().WithRemote(r2))
		if err == nil {
			e2.Send(actor.NewPID(addr, "t/1"), tm("probe"))
			select {
			case <-got:
			case <-time.After(hang):
				bad("a message sent to an actor of the engine the remote was started with never arrived")
			}
			r2.Stop().Wait()
		}
	}
	if state == "running" {
		r.Stop().Wait()
	}
	return res
}

// selfSignedTLS: one throw-away certificate for 127.0.0.1, used by both ends (the client side does not
// verify it: the scenarios are about delivery and unreachability, not about authentication).
var tlsOnce sync.Once
var tlsCfg *tls.Config

func selfSignedTLS() *tls.Config {
	tlsOnce.Do(func() {
		key, err := ecdsa.GenerateKey(elliptic.P256(), rand.Reader)
		if err != nil {
			panic(err)
		}
		tmpl := &x509.Certificate{SerialNumber: big.NewInt(1), NotBefore: time.Now().Add(-time.Hour), NotAfter: time.Now().Add(24 * time.Hour),
			KeyUsage: x509.KeyUsageDigitalSignature, ExtKeyUsage: []x509.ExtKeyUsage{x509.ExtKeyUsageServerAuth}, IPAddresses: []net.IP{net.ParseIP("127.0.0.1")}}
		der, err := x509.CreateCertificate(rand.Reader, tmpl, tmpl, &key.PublicKey, key)
		if err != nil {
			panic(err)
		}
		tlsCfg = &tls.Config{Certificates: []tls.Certificate{{Certificate: [][]byte{der}, PrivateKey: key}}, InsecureSkipVerify: true}
	})
	return tlsCfg
}

func init() {
	// as an application that sends its own generated types would
	remote.RegisterType(&remote.TestMessage{})
}

func main() {
	slog.SetDefault(slog.New(slog.NewTextHandler(io.Discard, &slog.HandlerOptions{Level: slog.Level(100)})))
	enc := json.NewEncoder(os.Stdout)
	mode := "all"
	tier := "quick"
	if len(os.Args) > 1 {
		mode = os.Args[1]
	}
	if len(os.Args) > 2 {
		tier = os.Args[2]
	}
	var mu sync.Mutex
	emit := func(o out) { mu.Lock(); enc.Encode(o); mu.Unlock() }
	var wg sync.WaitGroup
	sem := make(chan struct{}, 8)
	if mode == "all" || mode == "records" {
		var vs []rparams.Params
		if tier == "thorough" {
			vs = append(vs, rparams.UpLarge...)
		} else {
			vs = append(vs, rparams.Up...)
		}
		vs = append(vs, rparams.Dn...)
		for _, p := range vs {
			if p.FailDials == 1 || p.FailDials == 2 {
				continue // a dial that fails once or twice inside the retry loop cannot be staged on real TCP without timing games
			}
			p := p
			wg.Add(1)
			sem <- struct{}{}
			go func() { defer wg.Done(); defer func() { <-sem }(); emit(runVariant(p)) }()
		}
	}
	if mode == "all" || mode == "lifecycle" {
		var seqs []string
		var rec func(cur string)
		rec = func(cur string) {
			if len(cur) > 0 {
				seqs = append(seqs, cur)
			}
			if len(cur) == 4 {
				return
			}
			for _, c := range "STWP" {
				rec(cur + string(c))
			}
		}
		rec("")
		for _, s := range seqs {
			s := s
			wg.Add(1)
			sem <- struct{}{}
			go func() { defer wg.Done(); defer func() { <-sem }(); emit(runLifecycle(s)) }()
		}
	}
	wg.Wait()
}
