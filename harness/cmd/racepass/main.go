// racepass is the free-running companion of the controlled explorations: it runs small
// drivers on the UNINSTRUMENTED repository code with real goroutines under the Go race detector
// (go build -race). The cooperative scheduler only interleaves at synchronisation operations and
// therefore assumes that plain memory is data-race free (assumption A2); its hand-offs are
// happens-before edges that would blind the detector, hence this separate pass. It samples
// schedules - it is NOT part of the exhaustive claim of any check; a race report is reported as a
// violation of C02 (receiver state, inbox, process), C14 (ring buffer), C10 (registry) or C12
// (event stream), depending on the scenario.
//
// Receivers keep plain (unsynchronised) state: if two Receive calls of one actor are not
// ordered by happens-before, the detector flags the receiver itself.
package main

import (
	"fmt"
	"io"
	"log/slog"
	"os"
	"runtime"
	"sync"
	"sync/atomic"
	"time"

	"github.com/anthdm/hollywood/actor"
	"github.com/anthdm/hollywood/cluster"
	"github.com/anthdm/hollywood/remote"
	"github.com/anthdm/hollywood/ringbuffer"
)

// probe is receiver state without any synchronisation.
type probe struct {
	n     int
	last  any
	byKey map[string]int
}

func (p *probe) touch(m any) {
	p.n++
	p.last = m
	if p.byKey == nil {
		p.byKey = map[string]int{}
	}
	p.byKey[fmt.Sprintf("%T", m)]++
}

type probing struct {
	p       *probe
	panicOn int
	done    *sync.WaitGroup
}

func (r *probing) Receive(c *actor.Context) {
	r.p.touch(c.Message())
	switch m := c.Message().(type) {
	case int:
		if r.done != nil {
			r.done.Done()
		}
		if r.panicOn != 0 && m == r.panicOn {
			panic("boom")
		}
	}
}

type recProc struct {
	p    probe
	seen atomic.Int64
}

func (p *recProc) Start()                           {}
func (p *recProc) PID() *actor.PID                  { return nil }
func (p *recProc) Send(*actor.PID, any, *actor.PID) {}
func (p *recProc) Shutdown()                        {}
func (p *recProc) Invoke(msgs []actor.Envelope) {
	for _, m := range msgs {
		p.p.touch(m.Msg)
	}
	p.seen.Add(int64(len(msgs)))
}

func waitFor(cond func() bool) bool {
	deadline := time.Now().Add(20 * time.Second)
	for !cond() {
		if time.Now().After(deadline) {
			return false
		}
		runtime.Gosched()
	}
	return true
}

// ---- scenarios (each call = one iteration)

func scInbox(i int) {
	in := actor.NewInbox(1 + i%3)
	proc := &recProc{}
	const senders, per = 4, 8
	var wg sync.WaitGroup
	wg.Add(senders + 1)
	go func() { defer wg.Done(); in.Start(proc) }()
	for s := 0; s < senders; s++ {
		go func(s int) {
			defer wg.Done()
			for k := 0; k < per; k++ {
				in.Send(actor.Envelope{Msg: s*100 + k})
			}
		}(s)
	}
	wg.Wait()
	waitFor(func() bool { return proc.seen.Load() == senders*per })
}

func scEngineLifecycle(i int) {
	e, _ := actor.NewEngine(actor.NewEngineConfig())
	var done sync.WaitGroup
	const senders, per = 3, 4
	done.Add(senders * per)
	pr := &probe{}
	crash := 0
	if i%2 == 1 {
		crash = 101 // one message panics (every delivery of it): restart on the worker goroutine
	}
	pid := actor.NewPID("local", "a/1")
	var wg sync.WaitGroup
	wg.Add(senders + 1)
	go func() {
		defer wg.Done()
		e.Spawn(func() actor.Receiver { return &probing{p: pr, panicOn: crash, done: &done} }, "a", actor.WithID("1"), actor.WithInboxSize(2), actor.WithRestartDelay(0), actor.WithMaxRestarts(100))
	}()
	for s := 0; s < senders; s++ {
		go func(s int) {
			defer wg.Done()
			waitFor(func() bool { return e.Registry.GetPID("a", "1") != nil })
			for k := 0; k < per; k++ {
				e.Send(pid, s*100+k)
			}
		}(s)
	}
	wg.Wait()
	w := make(chan struct{})
	go func() { done.Wait(); close(w) }()
	select {
	case <-w:
	case <-time.After(20 * time.Second):
	}
	if i%3 == 0 {
		<-e.Poison(pid).Done()
	} else {
		<-e.Stop(pid).Done()
	}
}

func scRegistry(i int) {
	e, _ := actor.NewEngine(actor.NewEngineConfig())
	var wg sync.WaitGroup
	wg.Add(6)
	for s := 0; s < 3; s++ {
		go func() {
			defer wg.Done()
			pr := &probe{}
			e.Spawn(func() actor.Receiver { return &probing{p: pr} }, "x", actor.WithID("1"))
		}()
	}
	for s := 0; s < 2; s++ {
		go func() {
			defer wg.Done()
			for k := 0; k < 20; k++ {
				e.Registry.GetPID("x", "1")
				e.Send(actor.NewPID("local", "x/1"), k)
			}
		}()
	}
	go func() {
		defer wg.Done()
		waitFor(func() bool { return e.Registry.GetPID("x", "1") != nil })
		<-e.Poison(actor.NewPID("local", "x/1")).Done()
		pr := &probe{}
		e.Spawn(func() actor.Receiver { return &probing{p: pr} }, "x", actor.WithID("1"))
	}()
	wg.Wait()
}

func scEventStream(i int) {
	e, _ := actor.NewEngine(actor.NewEngineConfig())
	subs := make([]*actor.PID, 3)
	for s := range subs {
		pr := &probe{}
		subs[s] = e.Spawn(func() actor.Receiver { return &probing{p: pr} }, "sub", actor.WithID(fmt.Sprint(s)))
	}
	var wg sync.WaitGroup
	wg.Add(5)
	for s := 0; s < 3; s++ {
		go func(s int) {
			defer wg.Done()
			e.Subscribe(subs[s])
			e.BroadcastEvent(s)
			if s == 1 {
				e.Unsubscribe(actor.NewPID(subs[s].Address, subs[s].ID))
			}
		}(s)
	}
	for b := 0; b < 2; b++ {
		go func(b int) {
			defer wg.Done()
			for k := 0; k < 10; k++ {
				e.BroadcastEvent(b*100 + k)
			}
		}(b)
	}
	wg.Wait()
	<-e.Poison(subs[2]).Done() // a subscriber that goes away without unsubscribing
	e.BroadcastEvent(999)
	time.Sleep(time.Millisecond)
}

type parentRecv struct {
	p    *probe
	kids int
}

func (r *parentRecv) Receive(c *actor.Context) {
	r.p.touch(c.Message())
	switch m := c.Message().(type) {
	case actor.Started:
		for k := 0; k < r.kids; k++ {
			pr := &probe{}
			c.SpawnChild(func() actor.Receiver { return &probing{p: pr} }, "c", actor.WithID(fmt.Sprint(k)))
		}
	case string:
		if m == "query" {
			for _, ch := range c.Children() {
				_ = ch
			}
		}
	}
}

func scChildren(i int) {
	e, _ := actor.NewEngine(actor.NewEngineConfig())
	pr := &probe{}
	root := e.Spawn(func() actor.Receiver { return &parentRecv{p: pr, kids: 3} }, "p", actor.WithID("1"))
	var wg sync.WaitGroup
	wg.Add(3)
	go func() {
		defer wg.Done()
		for k := 0; k < 10; k++ {
			e.Send(root, "query")
		}
	}()
	go func() { defer wg.Done(); <-e.Poison(root.Child("c/1")).Done() }()
	go func() {
		defer wg.Done()
		for k := 0; k < 5; k++ {
			e.Send(root.Child("c/2"), k)
		}
	}()
	wg.Wait()
	done := e.Poison(root).Done()
	select {
	case <-done:
	case <-time.After(5 * time.Second): // the known D3 hang (third-party poison racing the shutdown) is not this pass's business
	}
}

func scRequest(i int) {
	e, _ := actor.NewEngine(actor.NewEngineConfig())
	pr := &probe{}
	echo := e.SpawnFunc(func(c *actor.Context) {
		if m, ok := c.Message().(int); ok {
			pr.touch(m)
			c.Respond(m + 1000)
			if m%2 == 0 {
				c.Respond(m + 2000)
			}
		}
	}, "echo", actor.WithID("1"))
	var wg sync.WaitGroup
	wg.Add(4)
	for r := 0; r < 4; r++ {
		go func(r int) {
			defer wg.Done()
			to := 2 * time.Second
			if r == 3 {
				to = time.Microsecond
			}
			e.Request(echo, r, to).Result()
		}(r)
	}
	wg.Wait()
}

func scRing(i int) {
	rb := ringbuffer.New[int](int64(1 + i%4))
	var wg sync.WaitGroup
	wg.Add(5)
	for p := 0; p < 2; p++ {
		go func(p int) {
			defer wg.Done()
			for k := 0; k < 50; k++ {
				rb.Push(p*1000 + k)
			}
		}(p)
	}
	go func() {
		defer wg.Done()
		for k := 0; k < 60; k++ {
			rb.Pop()
		}
	}()
	go func() {
		defer wg.Done()
		for k := 0; k < 30; k++ {
			rb.PopN(3)
		}
	}()
	go func() {
		defer wg.Done()
		for k := 0; k < 100; k++ {
			if rb.Len() < 0 {
				panic("negative Len")
			}
		}
	}()
	wg.Wait()
}

// scClusterNode: one real cluster node (real remote on a loopback port, real self-managed provider and
// agent). Handshakes and member lists from peers that do not exist arrive while unreachable reports for
// members and non-members are broadcast, and the public cluster API is queried from other goroutines:
// the provider and the agent own their state, everybody else (the provider's event-stream child, callers
// of Members()/HasKind()/GetActiveByID()) must go through messages.
var nodePort atomic.Int32

func scClusterNode(i int) {
	addr := fmt.Sprintf("127.0.0.1:%d", 21000+os.Getpid()%4000+int(nodePort.Add(1))%900)
	r := remote.New(addr, remote.NewConfig())
	e, err := actor.NewEngine(actor.NewEngineConfig().WithRemote(r))
	if err != nil {
		return
	}
	c, err := cluster.New(cluster.NewConfig().WithEngine(e).WithID("A").WithRequestTimeout(2 * time.Second))
	if err != nil {
		return
	}
	c.RegisterKind("k", func() actor.Receiver { return &probing{p: &probe{}} }, cluster.NewKindConfig())
	c.Start()
	prov := actor.NewPID(addr, "provider/A")
	peers := []*cluster.Member{
		{ID: "B", Host: "127.0.0.1:1", Kinds: []string{"k"}}, {ID: "C", Host: "127.0.0.1:2", Kinds: []string{"k"}}, {ID: "D", Host: "127.0.0.1:3"},
	}
	var wg sync.WaitGroup
	wg.Add(4)
	go func() {
		defer wg.Done()
		for k := 0; k < 12; k++ {
			m := peers[k%len(peers)]
			if k%3 == 0 {
				e.Send(prov, &cluster.Members{Members: []*cluster.Member{m}})
			} else {
				e.SendWithSender(prov, &cluster.Handshake{Member: m}, actor.NewPID(m.Host, "provider/"+m.ID))
			}
		}
	}()
	go func() {
		defer wg.Done()
		for k := 0; k < 12; k++ {
			a := []string{"127.0.0.1:1", "127.0.0.1:9", "127.0.0.1:2", "10.9.9.9:4000"}[k%4]
			e.BroadcastEvent(actor.RemoteUnreachableEvent{ListenAddr: a})
		}
	}()
	go func() {
		defer wg.Done()
		for k := 0; k < 6; k++ {
			c.Members()
			c.HasKind("k")
			c.GetActiveByID("k/1")
		}
	}()
	go func() {
		defer wg.Done()
		c.Activate("k", cluster.NewActivationConfig().WithID("1"))
		c.Deactivate(actor.NewPID(addr, "k/1"))
	}()
	wg.Wait()
	time.Sleep(5 * time.Millisecond)
	c.Stop()
	r.Stop().Wait()
}

// scChildrenCrash: several sibling children exceed their restart budget at the same moment (a bad message
// fanned out to a worker pool with a small MaxRestarts), each on its own goroutine, while the parent lists
// its children: they all leave the parent's children map concurrently.
type fanParent struct {
	p    *probe
	kids []*actor.PID
}

func (r *fanParent) Receive(c *actor.Context) {
	r.p.touch(c.Message())
	switch m := c.Message().(type) {
	case actor.Started:
		for k := 0; k < 6; k++ {
			pr := &probe{}
			r.kids = append(r.kids, c.SpawnChild(func() actor.Receiver { return &probing{p: pr, panicOn: 666} }, "w", actor.WithID(fmt.Sprint(k)), actor.WithMaxRestarts(k%2), actor.WithRestartDelay(0)))
		}
	case string:
		switch m {
		case "fan":
			for _, kid := range r.kids {
				c.Send(kid, 666)
			}
		case "query":
			for _, ch := range c.Children() {
				_ = ch
			}
		}
	}
}

func scChildrenCrash(i int) {
	e, _ := actor.NewEngine(actor.NewEngineConfig())
	root := e.Spawn(func() actor.Receiver { return &fanParent{p: &probe{}} }, "p", actor.WithID("1"))
	e.Send(root, "fan")
	for k := 0; k < 8; k++ {
		e.Send(root, "query")
	}
	waitFor(func() bool {
		for k := 0; k < 6; k++ {
			if e.Registry.GetPID("p/1/w", fmt.Sprint(k)) != nil {
				return false
			}
		}
		return true
	})
	select {
	case <-e.Poison(root).Done():
	case <-time.After(5 * time.Second):
	}
}

var scenarios = map[string]func(int){
	"children-crash": scChildrenCrash,
	"cluster-node": scClusterNode,
	"inbox": scInbox, "engine-lifecycle": scEngineLifecycle, "registry": scRegistry,
	"event-stream": scEventStream, "children": scChildren, "request": scRequest, "ring": scRing,
}

func main() {
	slog.SetDefault(slog.New(slog.NewTextHandler(io.Discard, &slog.HandlerOptions{Level: slog.Level(100)})))
	if len(os.Args) < 3 {
		fmt.Fprintln(os.Stderr, "usage: racepass <scenario> <seconds>")
		os.Exit(2)
	}
	f := scenarios[os.Args[1]]
	if f == nil {
		fmt.Fprintln(os.Stderr, "unknown scenario")
		os.Exit(2)
	}
	var secs int
	fmt.Sscan(os.Args[2], &secs)
	deadline := time.Now().Add(time.Duration(secs) * time.Second)
	n := 0
	for time.Now().Before(deadline) {
		f(n)
		n++
	}
	fmt.Printf("{\"scenario\":%q,\"iterations\":%d}\n", os.Args[1], n)
}
