package remote

// Harness-only helpers, added to package remote through the build overlay. They only
// construct, read or call repository code.

import (
	"context"
	"net"
	"time"

	"github.com/anthdm/hollywood/actor"
	"storj.io/drpc"
)

// VerifPipe is an in-memory drpc.Stream: MsgSend marshals with the encoding the generated
// code passes in (the production encoding) and queues the bytes; MsgRecv unmarshals the
// next queued frame, and reports context.Canceled (a clean end of stream) when there is none.
type VerifPipe struct {
	Values  []*Envelope // if set: handed to the receiver as they are (an Envelope VALUE no byte string decodes to, e.g. with nil table entries), before Frames
	vpos    int
	Frames  [][]byte
	pos     int
	SendErr error
	Closed  bool
}

func (p *VerifPipe) Context() context.Context { return context.Background() }
func (p *VerifPipe) MsgSend(m drpc.Message, enc drpc.Encoding) error {
	if p.SendErr != nil {
		return p.SendErr
	}
	b, err := enc.Marshal(m)
	if err != nil {
		return err
	}
	p.Frames = append(p.Frames, b)
	return nil
}
func (p *VerifPipe) MsgRecv(m drpc.Message, enc drpc.Encoding) error {
	if p.vpos < len(p.Values) {
		v := p.Values[p.vpos]
		p.vpos++
		e := m.(*Envelope)
		e.TypeNames, e.Targets, e.Senders, e.Messages = v.TypeNames, v.Targets, v.Senders, v.Messages
		return nil
	}
	if p.pos >= len(p.Frames) {
		return context.Canceled
	}
	b := p.Frames[p.pos]
	p.pos++
	return enc.Unmarshal(b, m)
}
func (p *VerifPipe) CloseSend() error { return nil }
func (p *VerifPipe) Close() error     { p.Closed = true; return nil }

type verifConn struct{}

func (verifConn) Read([]byte) (int, error)         { return 0, context.Canceled }
func (verifConn) Write(b []byte) (int, error)      { return len(b), nil }
func (verifConn) Close() error                     { return nil }
func (verifConn) LocalAddr() net.Addr              { return nil }
func (verifConn) RemoteAddr() net.Addr             { return nil }
func (verifConn) SetDeadline(time.Time) error      { return nil }
func (verifConn) SetReadDeadline(time.Time) error  { return nil }
func (verifConn) SetWriteDeadline(time.Time) error { return nil }

// VerifWriter builds the real streamWriter of engine e for address addr around pipe (the
// generated client wrapper + the production encoding sit between Invoke and the pipe).
func VerifWriter(e *actor.Engine, addr string, pipe *VerifPipe) actor.Processer {
	w := newStreamWriter(e, nil, addr, nil, 0).(*streamWriter)
	w.stream = &drpcRemote_ReceiveClient{pipe}
	w.rawconn = verifConn{}
	return w
}

// verifWriterProc is the real streamWriter minus the dial: Start only opens its inbox.
type verifWriterProc struct{ *streamWriter }

func (p verifWriterProc) Start() { p.streamWriter.inbox.Start(p.streamWriter) }

// VerifInstallWriter registers the real streamWriter of engine e for address addr in e's
// registry, under the PID the router would give it ("stream/<addr>"), connected to pipe
// instead of a dialled connection. Whatever is sent to that PID goes through the writer's
// own inbox into the real streamWriter.Invoke.
func VerifInstallWriter(e *actor.Engine, addr string, pipe *VerifPipe) *actor.PID {
	w := VerifWriter(e, addr, pipe).(*streamWriter)
	return e.SpawnProc(verifWriterProc{w})
}

// VerifInstallDialingWriter registers the real streamWriter for addr as it is while its first
// dial is still being retried: in the registry, inbox open, no stream and no connection yet.
func VerifInstallDialingWriter(e *actor.Engine, addr string) *actor.PID {
	w := newStreamWriter(e, nil, addr, nil, 0).(*streamWriter)
	return e.SpawnProc(verifWriterProc{w})
}

// VerifDeliver wraps an outbound message the way Remote.Send does.
func VerifDeliver(target, sender *actor.PID, msg any) actor.Envelope {
	return actor.Envelope{Msg: &streamDeliver{target: target, sender: sender, msg: msg}}
}

// VerifRead runs the real streamReader.Receive of a remote bound to engine e over pipe
// (through the generated server-side stream wrapper) until the pipe is drained.
func VerifRead(e *actor.Engine, pipe *VerifPipe) error {
	r := newStreamReader(&Remote{engine: e})
	return r.Receive(&drpcRemote_ReceiveStream{pipe})
}

// VerifUnwrapDeliver returns the (target, sender, message) of a router/writer-level message
// (used to recognise dead-lettered outbound messages).
func VerifUnwrapDeliver(v any) (target, sender *actor.PID, msg any, ok bool) {
	sd, ok := v.(*streamDeliver)
	if !ok {
		return nil, nil, nil, false
	}
	return sd.target, sd.sender, sd.msg, true
}
