package actor

import "github.com/anthdm/hollywood/zzverif/vsched"

// Harness-only accessors, added to package actor through the build overlay. They only
// read or call repository code.

func VerifInboxStatus(in *Inbox) int32 { return in.procStatus }
func VerifInboxLen(in *Inbox) int64    { return in.rb.Len() }

const (
	VerifStopped  = stopped
	VerifStarting = starting
	VerifIdle     = idle
	VerifRunning  = running
)

const VerifMessageBatchSize = messageBatchSize

// VerifIsPoisonPill reports whether v is the engine-private pill type.
func VerifIsPoisonPill(v any) bool { _, ok := v.(poisonPill); return ok }

// VerifProcInbox returns the inbox of a process registered under pid (nil if none).
func VerifProcInbox(e *Engine, pid *PID) *Inbox {
	p, ok := e.Registry.get(pid).(*process)
	if !ok || p == nil {
		return nil
	}
	in, _ := p.inbox.(*Inbox)
	return in
}

// VerifMuteEvents detaches the event stream of e: BroadcastEvent becomes a no-op (the engine
// code tolerates a nil event stream). Used by "quiet" scenarios that do not observe events, so
// that the exploration budget goes into the mechanism under test instead of event fan-out.
func VerifMuteEvents(e *Engine) { e.eventStream = nil }

// VerifResponsePending reports how many replies sit unread in the mailbox of a response (a reply
// that arrived at the same moment the requester's timeout was taken stays there).
func VerifResponsePending(r *Response) int { return vsched.ChanLen(r.result) }
