package actor

// Harness-only accessors, added to package actor through the build overlay. They only
// read or call repository code.

func VerifInboxStatus(in *Inbox) int32 { return in.procStatus }
func VerifInboxLen(in *Inbox) int64    { return in.rb.Len() }

const (
	VerifStopped  = stopped
	VerifStarting = starting
	VerifIdle     = idle
	VerifRunning  = running
)

const VerifMessageBatchSize = messageBatchSize

// VerifIsPoisonPill reports whether v is the engine-private pill type.
func VerifIsPoisonPill(v any) bool { _, ok := v.(poisonPill); return ok }

// VerifProcInbox returns the inbox of a process registered under pid (nil if none).
func VerifProcInbox(e *Engine, pid *PID) *Inbox {
	p, ok := e.Registry.get(pid).(*process)
	if !ok || p == nil {
		return nil
	}
	in, _ := p.inbox.(*Inbox)
	return in
}
