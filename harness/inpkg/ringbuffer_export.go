package ringbuffer

// VerifGeometry exposes the internal geometry of a ring buffer (harness only, overlay).
func VerifGeometry[T any](rb *RingBuffer[T]) (mod, head, tail, ln int64, items []T) {
	c := rb.content
	return c.mod, c.head, c.tail, rb.len, c.items
}
