package cluster

// Harness-only helpers, added to package cluster through the build overlay. They only
// construct, read or call repository code.

import "github.com/anthdm/hollywood/actor"

// VerifStartWithStubAgent mirrors Cluster.Start, except that the actor registered under the
// agent's PID (cluster/<id>) is produced by stub instead of NewAgent: the provider under test
// reports to a recorder.
func VerifStartWithStubAgent(c *Cluster, stub actor.Producer) {
	c.agentPID = c.engine.Spawn(stub, "cluster", actor.WithID(c.config.id))
	c.providerPID = c.engine.Spawn(c.config.provider(c), "provider", actor.WithID(c.config.id))
	c.isStarted = true
}

// VerifProviderPID returns the PID of the provider actor of a started cluster.
func VerifProviderPID(c *Cluster) *actor.PID { return c.providerPID }

// VerifMemberLeave builds the provider-internal message that the provider's event child sends
// when a RemoteUnreachableEvent is published (used only to recognise it in logs).
func VerifIsMemberLeave(v any) (string, bool) {
	m, ok := v.(memberLeave)
	return m.ListenAddr, ok
}
