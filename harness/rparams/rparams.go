// Package rparams holds the C17 scenario parameters shared by the controlled leg (in-memory
// transport under the scheduler) and the conformance leg (same driver over real loopback TCP).
// It must not import the scheduler.
package rparams

import (
	"fmt"
	"sort"
	"strings"
)

type Params struct {
	Senders    int
	PerT       int
	Targets    int  // 1 or 2 actors on B
	WithSender bool // odd messages carry a sender PID
	FailDials  int  // dial attempts to B that fail before the peer is reachable (3 = one whole connection attempt)
	Late       int  // sends issued after the first episode has settled
	Request    bool // a requester on A asks an echo actor on B
	Actor      bool // one sender is an actor on A (two c.Send from one Receive)
	SameID     bool // with WithSender: EVERY message carries a sender, alternating between two PIDs that have the same id on different addresses
	SelfSender bool // with WithSender: the sender PID given is the target PID itself ("reply to yourself")
	Peers      int  // 2: a second peer C; every second message of a sender goes to actor t1 on C (one writer per address)
	NoEvents   bool // controlled leg: the sending node's event stream is detached too (the oracle then only looks at deliveries)
	TLS        bool // both remotes are configured WithTLS (the writer dials through crypto/tls, the listener is a TLS listener)
	Restart    bool // after the early messages arrived the peer stops (connection lost) and a new engine comes up on the same address; then Late sends
}

func (p Params) String() string {
	s := fmt.Sprintf("T%dx%dtg%dsnd%vfail%dlate%dreq%vact%v", p.Senders, p.PerT, p.Targets, p.WithSender, p.FailDials, p.Late, p.Request, p.Actor)
	if p.SelfSender {
		s += "self"
	}
	if p.SameID {
		s += "sameid"
	}
	if p.Restart {
		s += "restart"
	}
	if p.NoEvents {
		s += "noev"
	}
	if p.Peers == 2 {
		s += "peers2"
	}
	if p.TLS {
		s += "tls"
	}
	return s
}

func (p Params) Down() bool { return p.FailDials >= 3 }

var Up = []Params{
	{Senders: 1, PerT: 3, Targets: 2, WithSender: true},
	{Senders: 2, PerT: 2, Targets: 1, WithSender: true},
	{Senders: 2, PerT: 2, Targets: 2},
	{Senders: 1, PerT: 2, Targets: 1, FailDials: 1},
	{Senders: 1, PerT: 2, Targets: 1, FailDials: 2, WithSender: true},
	{Senders: 1, PerT: 1, Targets: 1, Request: true},
	{Senders: 1, PerT: 1, Targets: 1, Actor: true},
	{Senders: 1, PerT: 3, Targets: 2, WithSender: true, SelfSender: true},
	{Senders: 1, PerT: 1, Targets: 1, Late: 1, Restart: true},
	{Senders: 1, PerT: 1, Targets: 1, Late: 1, Restart: true, NoEvents: true},
	{Senders: 1, PerT: 4, Targets: 2, WithSender: true, Peers: 2},
	{Senders: 1, PerT: 4, Targets: 1, WithSender: true, SameID: true},
	{Senders: 1, PerT: 2, Targets: 1, WithSender: true, TLS: true},
}

var Dn = []Params{
	{Senders: 1, PerT: 2, Targets: 1, FailDials: 3, Late: 1},
	{Senders: 2, PerT: 1, Targets: 2, FailDials: 3, Late: 1, WithSender: true},
	{Senders: 1, PerT: 1, Targets: 1, FailDials: 6, Late: 2},
	{Senders: 1, PerT: 2, Targets: 1, FailDials: 3, Late: 2},
	{Senders: 1, PerT: 2, Targets: 1, FailDials: 3, Late: 1, TLS: true},
}

var UpLarge = append([]Params{
	{Senders: 2, PerT: 2, Targets: 1, Peers: 2},
	{Senders: 1, PerT: 2, Targets: 1, Late: 2, Restart: true},
	{Senders: 2, PerT: 1, Targets: 2, Late: 1, Restart: true, WithSender: true},
	{Senders: 3, PerT: 1, Targets: 2, WithSender: true},
	{Senders: 2, PerT: 3, Targets: 2, WithSender: true},
	{Senders: 2, PerT: 1, Targets: 1, Request: true, Actor: true},
}, Up...)

// Delivery is one message handed to an actor on B.
type Delivery struct {
	Actor, ID, Sender string
}

// Record renders what a run of scenario p observed in a form that does not depend on how
// deliveries to different actors / from different senders interleave: per actor and per sending
// thread the sequence of message ids with their senders, the dead-lettered ids, the number of
// unreachable events and the request's result.
func Record(p Params, deliveries []Delivery, dead []string, unreachable int, reqResult string) string {
	if p.NoEvents {
		unreachable, dead = 0, nil // not observed in the controlled leg of this variant
	}
	per := map[string][]string{}
	for _, d := range deliveries {
		th := d.ID
		if i := strings.IndexAny(d.ID, ".0123456789"); i >= 0 {
			if j := strings.IndexByte(d.ID, '.'); j > 0 {
				th = d.ID[:j]
			} else {
				th = strings.TrimRight(d.ID, "0123456789")
			}
		}
		k := d.Actor + "/" + th
		per[k] = append(per[k], d.ID+"("+d.Sender+")")
	}
	keys := make([]string, 0, len(per))
	for k := range per {
		keys = append(keys, k)
	}
	sort.Strings(keys)
	var parts []string
	for _, k := range keys {
		parts = append(parts, k+"="+strings.Join(per[k], ","))
	}
	ds := append([]string{}, dead...)
	sort.Strings(ds)
	return fmt.Sprintf("%s: %s | dead=%s | unreachable=%d | req=%s", p, strings.Join(parts, " "), strings.Join(ds, ","), unreachable, reqResult)
}
