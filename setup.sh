#!/bin/bash
# Builds the framework from files on disk only (offline) and pre-warms the Go build cache.
set -e
cd "$(dirname "$0")"
export GOFLAGS=-mod=mod GOPROXY=off GOSUMDB=off GOTOOLCHAIN=local
mkdir -p .bin evidence replays
(cd vinstr && go build -o ../.bin/vinstr .)
(cd /repo && go build ./... )
./check build
# pre-warm the race-detector build of the free-running pass and the conformance leg
(cd harness && go build -race -o /dev/null ./cmd/racepass && go build -o /dev/null ./cmd/conf)
# the exploration engine against its own planted bugs and their correct twins
./check selftest | tail -1
echo "setup ok"
